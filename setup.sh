#!/bin/sh
# builds the overlay venv offline (idempotent): /venv's packages + z3-solver, cvc5, jsonschema
set -e
cd "$(dirname "$0")"
if [ ! -x .venv/bin/python ] || ! .venv/bin/python -c "import z3, numpy, scipy" 2>/dev/null; then
  rm -rf .venv
  /venv/bin/python -m venv .venv
  SP=$(.venv/bin/python -c "import site; print(site.getsitepackages()[0])")
  echo "import site; site.addsitedir('/venv/lib/python3.12/site-packages')" > "$SP/_base.pth"
  PIP_NO_INDEX=1 .venv/bin/pip install -q --no-index --find-links /opt/veriftools/wheels z3-solver cvc5 jsonschema >/dev/null
fi
.venv/bin/python -c "import z3, numpy, scipy; print('symx env ok: z3', z3.get_version_string(), 'numpy', numpy.__version__)"
