"""C07  Linear-algebra functions propagate matrix Taylor polynomials correctly.

dot / outer / trace against NumPy applied to each pair of coefficient slices
and convolved; inv and solve through their residual identities A inv(A) = I,
A X = B modulo t^D; det against the Leibniz polynomial of A(t) (truncated
products) on every pivot path of the LU model; logdet (det > 0) against the
composition oracle for log applied to det(t); expm against the Pade-7 defining
equation.  Operand ranks and kinds {UTPM,UTPM},{UTPM,ndarray},{ndarray,UTPM}
are enumerated, all coefficients are symbolic."""
import itertools

import numpy as np

import symx
from .. import sym as S
from .. import lib, npx
from ..runner import Unit
from .common import mk_utpm, mk_array, plain
from .c08 import V, ps_matmul, eye_series, coefs
from .c17 import _leibniz

PROP = 'C07'
EXPLANATION = 'C07: operand ranks/kinds enumerated; pivot paths explored by forking; all coefficients symbolic.'
ASSUMPTIONS = ['logdet: det(A0) > 0 is assumed; its zeroth coefficient (sum of log|u_ii| vs log det) is only validated '
               'numerically, orders >= 1 are decided', 'expm: the identity decided is the Pade-7 defining equation '
               '(-U+V) B = U+V; the distance between the Pade approximant and the true exponential is not a claim']


def operand(ctx, algopy, kind, name, shape, D, P, nonsing=False):
    """returns (object, coefficient list accessor p -> [c_0..c_{D-1}] arrays); kinds U / N are a
    real polynomial / constant, C / K their complex counterparts"""
    if kind in ('C', 'K'):
        full = ((D, P) + shape) if kind == 'C' else shape
        X = np.empty(full, dtype=object)
        for idx in np.ndindex(*full):
            X[idx] = ctx.cvar('%s%s' % (name, list(idx)))
        if ctx.mode == 'sym':
            obj = npx.sarr(X, complex)
        else:
            obj = np.array(X.tolist(), dtype=complex).reshape(full)
        if kind == 'C':
            return algopy.UTPM(obj), (lambda p: [X[d, p] for d in range(D)]), X
        zero = np.zeros(shape, dtype=object)
        zero[...] = 0.0 if ctx.mode == 'float' else S.const(0)
        return obj, (lambda p: [X] + [zero] * (D - 1)), X
    if kind == 'U':
        X = V(ctx, name, (D, P) + shape)
        return mk_utpm(ctx, algopy, X), (lambda p: [X[d, p] for d in range(D)]), X
    A = V(ctx, name, shape)
    zero = np.zeros(shape, dtype=object)
    zero[...] = 0.0 if ctx.mode == 'float' else S.const(0)
    return mk_array(ctx, A), (lambda p: [A] + [zero] * (D - 1)), A


def ps_binop(f, xc, yc, D):
    out = []
    for d in range(D):
        s = None
        for c in range(d + 1):
            t = f(xc[c], yc[d - c])
            s = t if s is None else s + t
        out.append(s)
    return out


def h_dot(ctx, fn, lshape, rshape, kinds, D, P):
    algopy = symx.load_algopy()
    x, xc, X = operand(ctx, algopy, kinds[0], 'x', tuple(lshape), D, P)
    y, yc, Y = operand(ctx, algopy, kinds[1], 'y', tuple(rshape), D, P)
    npf = np.dot if fn == 'dot' else np.outer
    try:
        z = getattr(algopy, fn)(x, y)
    except Exception as e:
        ctx.fact(False, '%s%s raised %s: %s' % (fn, (tuple(lshape), tuple(rshape), kinds), type(e).__name__, str(e)[:120]))
        return
    Z = plain(z.data)
    ref_shape = np.shape(npf(np.zeros(lshape), np.zeros(rshape)))
    ctx.fact(Z.shape == (D, P) + ref_shape, 'result shape %s == %s' % (Z.shape, (D, P) + ref_shape))
    if Z.shape != (D, P) + ref_shape:
        return
    for p in range(P):
        ref = ps_binop(npf, xc(p), yc(p), D)
        for d in range(D):
            ctx.eq(Z[d, p], ref[d], '%s order %d dir %d' % (fn, d, p))
    if kinds[0] == 'U':
        ctx.eq(plain(x.data), X, 'left operand unchanged')
    if kinds[1] == 'U':
        ctx.eq(plain(y.data), Y, 'right operand unchanged')


def h_dot_out(ctx, fn, lshape, rshape, kinds, D, P):
    """UTPM.dot / UTPM.outer called with out=: the buffer is filled with the result and returned
    (whatever it held before), for polynomial and constant operands alike"""
    algopy = symx.load_algopy()
    x, xc, X = operand(ctx, algopy, kinds[0], 'x', tuple(lshape), D, P)
    y, yc, Y = operand(ctx, algopy, kinds[1], 'y', tuple(rshape), D, P)
    npf = np.dot if fn == 'dot' else np.outer
    ref_shape = np.shape(npf(np.zeros(lshape), np.zeros(rshape)))
    W = V(ctx, 'w', (D, P) + ref_shape)
    buf = mk_utpm(ctx, algopy, W)
    try:
        z = getattr(algopy.UTPM, fn)(x, y, out=buf)
    except NotImplementedError:
        ctx.fact(True, 'out= is refused explicitly')
        return
    ctx.fact(z is buf, 'UTPM.%s(..., out=buf) returns buf' % fn)
    Z = plain(buf.data)
    for p in range(P):
        ref = ps_binop(npf, xc(p), yc(p), D)
        for d in range(D):
            ctx.eq(Z[d, p], ref[d], 'buf after UTPM.%s(x, y, out=buf), order %d dir %d' % (fn, d, p))


def h_iouter(ctx, lshape, rshape, D, P):
    """UTPM.iouter(x, y, out): out += x y^T in Taylor arithmetic (the accumulating form of outer);
    the result object is `out`, x and y stay unchanged."""
    algopy = symx.load_algopy()
    X = V(ctx, 'x', (D, P) + tuple(lshape))
    Y = V(ctx, 'y', (D, P) + tuple(rshape))
    O = V(ctx, 'o', (D, P, lshape[0], rshape[0]))
    x, y, o = mk_utpm(ctx, algopy, X), mk_utpm(ctx, algopy, Y), mk_utpm(ctx, algopy, O)
    try:
        r = algopy.UTPM.iouter(x, y, o)
    except Exception as e:
        ctx.fact(False, 'iouter raised %s: %s' % (type(e).__name__, str(e)[:120]))
        return
    ctx.fact(r is o, 'iouter returns its out argument')
    Z = plain(o.data)
    for p in range(P):
        ref = ps_binop(np.outer, [X[d, p] for d in range(D)], [Y[d, p] for d in range(D)], D)
        for d in range(D):
            ctx.eq(Z[d, p], O[d, p] + ref[d], 'out + outer(x, y) order %d dir %d' % (d, p))
    ctx.eq(plain(x.data), X, 'left operand unchanged')
    ctx.eq(plain(y.data), Y, 'right operand unchanged')


def h_trace(ctx, n, D, P, m=None):
    algopy = symx.load_algopy()
    m = n if m is None else m
    X = V(ctx, 'x', (D, P, n, m))
    z = algopy.trace(mk_utpm(ctx, algopy, X))
    Z = plain(z.data)
    for d in range(D):
        for p in range(P):
            ctx.eq(Z[d, p], sum(X[d, p, i, i] for i in range(min(n, m))), 'trace[%d,%d]' % (d, p))


def _nonsingular(ctx, A0):
    n = A0.shape[0]
    det = _leibniz(A0)
    if isinstance(det, S.SymC):
        ctx.assume(det.re * det.re + det.im * det.im != 0)
    elif isinstance(det, complex):
        ctx.assume(abs(det) > 1e-3)
    else:
        ctx.assume(det != 0)


def h_inv(ctx, n, D, P):
    algopy = symx.load_algopy()
    X = V(ctx, 'A', (D, P, n, n))
    for p in range(P):
        _nonsingular(ctx, X[0, p])
    A = mk_utpm(ctx, algopy, X)
    B = plain(algopy.inv(A).data)
    I = eye_series(n, D, ctx)
    for p in range(P):
        AB = ps_matmul(coefs(X, p), coefs(B, p), D)
        BA = ps_matmul(coefs(B, p), coefs(X, p), D)
        for d in range(D):
            ctx.eq(AB[d], I[d], 'A inv(A) == I order %d dir %d' % (d, p))
            ctx.eq(BA[d], I[d], 'inv(A) A == I order %d dir %d' % (d, p))
    ctx.eq(plain(A.data), X, 'operand unchanged')


def h_solve(ctx, n, k, kinds, D, P):
    algopy = symx.load_algopy()
    a, ac, A = operand(ctx, algopy, kinds[0], 'A', (n, n), D, P)
    b, bc, B = operand(ctx, algopy, kinds[1], 'B', (n, k), D, P)
    if kinds[0] in ('U', 'C'):
        for p in range(P):
            _nonsingular(ctx, A[0, p])
    else:
        _nonsingular(ctx, A)
    try:
        if ctx.opts.get('dirty_out'):
            # a reused workspace as out=: the result must not depend on what it held before
            W = V(ctx, 'w', (D, P, n, k))
            outb = mk_utpm(ctx, algopy, W)
            x = algopy.UTPM.solve(a, b, out=outb)
            ctx.fact(x is outb, 'the out= buffer is returned')
        else:
            x = algopy.solve(a, b)
    except Exception as e:
        ctx.fact(False, 'solve%s raised %s: %s' % ((n, k, kinds), type(e).__name__, str(e)[:120]))
        return
    Xd = plain(x.data)
    ctx.fact(Xd.shape == (D, P, n, k), 'solution shape %s' % (Xd.shape,))
    for p in range(P):
        AX = ps_matmul(ac(p), coefs(Xd, p), D)
        rhs = bc(p)
        for d in range(D):
            ctx.eq(AX[d], rhs[d], 'A X == B order %d dir %d' % (d, p))


def h_int_constant(ctx, what, D, P):
    """integer-typed constant operands (numpy.eye(n, dtype=int), 0/1 selection matrices)"""
    algopy = symx.load_algopy()
    X = V(ctx, 'A', (D, P, 2, 2))
    A = mk_utpm(ctx, algopy, X)
    E = np.array([[0, 1], [1, 0]])
    I = eye_series(2, D, ctx)
    Ec = [np.array(E, dtype=object)] + [np.zeros((2, 2), dtype=object)] * (D - 1)
    if what == 'solve(A, int B)':
        for p in range(P):
            _nonsingular(ctx, X[0, p])
        Z = plain(algopy.solve(A, E).data)
        for p in range(P):
            AX = ps_matmul(coefs(X, p), coefs(Z, p), D)
            for d in range(D):
                ctx.eq(AX[d], Ec[d], 'A X == E order %d dir %d' % (d, p))
    elif what == 'solve(int A, B)':
        Z = plain(algopy.solve(E, A).data)
        for p in range(P):
            for d in range(D):
                ctx.eq(np.dot(E, Z[d, p]), X[d, p], 'E X == B order %d dir %d' % (d, p))
    elif what == 'dot(A, int)':
        Z = plain(algopy.dot(A, E).data)
        for p in range(P):
            for d in range(D):
                ctx.eq(Z[d, p], np.dot(X[d, p], E), 'dot order %d dir %d' % (d, p))
    else:
        Z = plain(algopy.dot(E, A).data)
        for p in range(P):
            for d in range(D):
                ctx.eq(Z[d, p], np.dot(E, X[d, p]), 'dot order %d dir %d' % (d, p))


def det_series(Ac, D):
    """Leibniz expansion of det(A(t)) by truncated products"""
    n = Ac[0].shape[0]
    tot = [0] * D
    for perm in itertools.permutations(range(n)):
        sgn = 1
        for i in range(n):
            for j in range(i + 1, n):
                if perm[i] > perm[j]:
                    sgn = -sgn
        term = [1] + [0] * (D - 1)
        for i in range(n):
            term = lib.ps_mul(term, [Ac[d][i, perm[i]] for d in range(D)], D)
        tot = [t + sgn * u for t, u in zip(tot, term)]
    return tot


def h_det(ctx, n, D, P, fn='det', scale=None):
    """scale=k (logdet only): the matrix polynomial is 2**k * B(t), so that det overflows /
    underflows in floats while logdet(2**k B) = n k ln 2 + logdet(B) is harmless"""
    algopy = symx.load_algopy()
    X = V(ctx, 'A', (D, P, n, n))
    if fn == 'logdet':
        for p in range(P):
            ctx.assume(_leibniz(X[0, p]) > 0)
    else:
        for p in range(P):
            _nonsingular(ctx, X[0, p])
    Xin = X
    if scale is not None:
        from fractions import Fraction
        Xin = X * (Fraction(2) ** scale if ctx.mode == 'sym' else 2.0 ** scale)
    A = mk_utpm(ctx, algopy, Xin)
    z = getattr(algopy, fn)(A)
    Z = plain(z.data)
    ctx.fact(Z.shape == (D, P), 'result shape %s' % (Z.shape,))
    for p in range(P):
        ds = det_series(coefs(X, p), D)
        if fn == 'det':
            for d in range(D):
                ctx.eq(Z[d, p], ds[d], 'det order %d dir %d' % (d, p))
        else:
            ref = lib.compose(lib.d_log(ctx, ds[0], D - 1), ds, D)
            if ctx.mode == 'float':
                import math
                ctx.eq(Z[0, p], ref[0] + (n * scale * math.log(2.0) if scale else 0.0), 'logdet order 0 dir %d (numeric only)' % p)
            for d in range(1, D):
                ctx.eq(Z[d, p], ref[d], 'logdet order %d dir %d' % (d, p))
    ctx.eq(plain(A.data), Xin, 'operand unchanged')


def h_complex_lu(ctx, n, D, P):
    """det and the LU factorisations of a complex matrix polynomial (float-decided: the pivoting
    model of the symbolic layer compares real magnitudes only)"""
    algopy = symx.load_algopy()
    X = np.empty((D, P, n, n), dtype=object if ctx.mode == 'sym' else complex)
    for idx in np.ndindex(*X.shape):
        X[idx] = ctx.cvar('A%s' % list(idx))
    if ctx.mode == 'sym':
        ctx.fact(True, 'complex pivoting: decided on the float build')
        ctx.eq(S.const(0), S.const(0), 'det complex')
        return
    for p in range(P):
        ctx.assume(abs(_leibniz(X[0, p])) > 1e-2)
    A = algopy.UTPM(X.copy())
    try:
        z = algopy.det(A)
        PIV, L, U = algopy.UTPM.lu2(A)
    except Exception as e:
        ctx.fact(False, 'det / lu2 of a complex matrix polynomial raised %s: %s' % (type(e).__name__, str(e)[:80]))
        return
    for p in range(P):
        ds = det_series(coefs(X, p), D)
        for d in range(D):
            ctx.eq(z.data[d, p], ds[d], 'det order %d dir %d (complex)' % (d, p))
    W = algopy.UTPM.piv2mat(PIV)
    ctx.eq(algopy.dot(W, algopy.dot(L, U)).data, X, 'P L U == A (complex)')


def h_expm(ctx, n, D, P):
    algopy = symx.load_algopy()
    X = V(ctx, 'A', (D, P, n, n))
    A = mk_utpm(ctx, algopy, X)
    Bm = plain(algopy.expm(A).data)
    b = (17297280, 8648640, 1995840, 277200, 25200, 1512, 56, 1)
    I = eye_series(n, D, ctx)
    for p in range(P):
        Ac = coefs(X, p)
        A2 = ps_matmul(Ac, Ac, D)
        A4 = ps_matmul(A2, A2, D)
        A6 = ps_matmul(A2, A4, D)
        inner = [b[7] * A6[d] + b[5] * A4[d] + b[3] * A2[d] + b[1] * I[d] for d in range(D)]
        U = ps_matmul(Ac, inner, D)
        Vv = [b[6] * A6[d] + b[4] * A4[d] + b[2] * A2[d] + b[0] * I[d] for d in range(D)]
        lhs = ps_matmul([Vv[d] - U[d] for d in range(D)], coefs(Bm, p), D)
        for d in range(D):
            ctx.eq(lhs[d], U[d] + Vv[d], '(-U+V) expm(A) == U+V order %d dir %d' % (d, p))


def h_expm_pade(ctx, q, n, D, P):
    """the fixed-order [q/q] Pade approximant r_q(A) = (V - U)^-1 (U + V) with the closed-form
    coefficients b_k = (2q-k)! / (k! (q-k)!) (any common factor cancels)"""
    import math
    algopy = symx.load_algopy()
    X = V(ctx, 'A', (D, P, n, n))
    A = mk_utpm(ctx, algopy, X)
    Bm = plain(algopy.expm_pade(A, q).data)
    b = [math.factorial(2 * q - k) // (math.factorial(k) * math.factorial(q - k)) for k in range(q + 1)]
    I = eye_series(n, D, ctx)
    for p in range(P):
        Ac = coefs(X, p)
        pw = [I]
        for k in range(q):
            pw.append(ps_matmul(pw[-1], Ac, D))
        U = [sum(b[k] * pw[k][d] for k in range(1, q + 1, 2)) for d in range(D)]
        Vv = [sum(b[k] * pw[k][d] for k in range(0, q + 1, 2)) for d in range(D)]
        lhs = ps_matmul([Vv[d] - U[d] for d in range(D)], coefs(Bm, p), D)
        for d in range(D):
            ctx.eq(lhs[d], U[d] + Vv[d], '(-U+V) expm_pade(A, %d) == U+V order %d dir %d' % (q, d, p))


def h_expm_higham(ctx, norm):
    """algopy.expm_higham_2005 (the Pade order is chosen from the 1-norm of the base matrix: a
    data-dependent threshold chain) at a base matrix of the given 1-norm: zeroth coefficient ==
    scipy.linalg.expm, first coefficient == scipy.linalg.expm_frechet, to 1e-10 relative.
    Concrete matrices: decided on the float build (P = 1; norms below 2.09, where no squaring
    is needed)."""
    import scipy.linalg
    from fractions import Fraction
    algopy = symx.load_algopy()
    if ctx.mode == 'sym':
        ctx.fact(True, 'concrete matrices: decided on the float build')
        ctx.eq(S.const(0), S.const(0), 'expm_higham_2005 at 1-norm %s' % norm)
        return
    B0 = np.array([[0.3, -0.5, 0.2], [0.1, 0.4, -0.6], [-0.7, 0.2, 0.1]])
    B0 = B0 * (float(Fraction(norm)) / np.linalg.norm(B0, 1))
    B1 = np.array([[1.0, 0.5, -0.25], [0.0, -1.0, 2.0], [0.75, 0.25, 1.5]])
    A = algopy.UTPM(np.array([B0, B1]).reshape((2, 1, 3, 3)))
    R = algopy.expm_higham_2005(A)
    E0 = scipy.linalg.expm(B0)
    E1 = scipy.linalg.expm_frechet(B0, B1, compute_expm=False)
    for d, ref in ((0, E0), (1, E1)):
        err = np.max(np.abs(np.asarray(R.data[d, 0]) - ref)) / np.max(np.abs(ref))
        ctx.fact(err < 1e-10, 'expm_higham_2005, 1-norm %s: coefficient %d within 1e-10 of SciPy (relative error %.2e)' % (norm, d, err))
    ctx.eq(np.asarray(A.data[0, 0]), B0, 'operand unchanged')


def units(tier, seed):
    out = []
    opts = {'property': PROP, 'path_budget': 300, 'validate_paths': 4}

    def add(name, func, o=None, **kw):
        oo = dict(opts)
        oo.update(o or {})
        out.append(Unit('C07/' + name, 'symx.props.c07', func, kw, oo))

    D, P = (3, 2) if tier == 'quick' else (4, 2)
    ranks = [((2, 2), (2, 2)), ((2, 3), (3, 2)), ((2, 2), (2,)), ((2,), (2, 2)), ((3,), (3,)),
             ((2, 2, 2), (2, 2)), ((2, 2), (2, 2, 2)), ((2, 2, 2), (2,))]
    for ls, rs in ranks:
        for kinds in ('UU', 'UN', 'NU'):
            if tier == 'quick' and len(ls) + len(rs) > 4 and kinds == 'UU' and False:
                continue
            add('dot/%s.%s/%s/D%d,P%d' % (ls, rs, kinds, D, P), 'h_dot', fn='dot', lshape=ls, rshape=rs, kinds=kinds, D=D, P=P)
    for kinds in ('UU', 'UN', 'NU'):
        add('outer/(2,)x(3,)/%s/D%d,P%d' % (kinds, D, P), 'h_dot', fn='outer', lshape=(2,), rshape=(3,), kinds=kinds, D=D, P=P)
        add('outer/(2,)x(2,)/%s/D%d,P%d' % (kinds, D, P), 'h_dot', fn='outer', lshape=(2,), rshape=(2,), kinds=kinds, D=D, P=P)
    # degenerate but valid shapes: size-1 axes, single row / single column, 1x1
    for ls, rs in [((1, 2), (2, 1)), ((2, 1), (1, 2)), ((1, 1), (1, 1)), ((1,), (1,)), ((1, 3), (3,)), ((3,), (3, 1))]:
        for kinds in ('UU', 'UN', 'NU'):
            add('dot/%s.%s/%s/D3,P2' % (ls, rs, kinds), 'h_dot', fn='dot', lshape=ls, rshape=rs, kinds=kinds, D=3, P=2)
    for kinds in ('UU', 'UN', 'NU'):
        add('outer/(1,)x(3,)/%s/D3,P2' % kinds, 'h_dot', fn='outer', lshape=(1,), rshape=(3,), kinds=kinds, D=3, P=2)
        add('outer/(3,)x(1,)/%s/D3,P2' % kinds, 'h_dot', fn='outer', lshape=(3,), rshape=(1,), kinds=kinds, D=3, P=2)
        add('solve/1x1,k1/%s/D4,P2' % kinds, 'h_solve', n=1, k=1, kinds=kinds, D=4, P=2)
        add('solve/1x1,k3/%s/D3,P2' % kinds, 'h_solve', n=1, k=3, kinds=kinds, D=3, P=2)
    add('inv/1x1/D5,P2', 'h_inv', n=1, D=5, P=2)
    add('trace/1x1/D3,P2', 'h_trace', n=1, D=3, P=2)
    add('trace/3x3/D%d,P%d' % (D, P), 'h_trace', n=3, D=D, P=P)
    for (n_, m_) in [(5, 2), (2, 5), (4, 1), (3, 2)]:
        add('trace/%dx%d/D2,P2' % (n_, m_), 'h_trace', n=n_, m=m_, D=2, P=2)
    add('inv/2x2/D%d,P%d' % (D + 1, P), 'h_inv', n=2, D=D + 1, P=P)
    add('inv/3x3/D%d,P1' % (3 if tier == 'quick' else 4), 'h_inv', n=3, D=3 if tier == 'quick' else 4, P=1)
    for kinds in ('UU', 'NU', 'UN'):
        add('solve/2x2,k2/%s/D%d,P%d' % (kinds, D, P), 'h_solve', n=2, k=2, kinds=kinds, D=D, P=P)
        add('solve/2x2,k1/%s/D%d,P%d' % (kinds, D, P), 'h_solve', n=2, k=1, kinds=kinds, D=D, P=P)
    for what in ('solve(A, int B)', 'solve(int A, B)', 'dot(A, int)', 'dot(int, A)'):
        add('integer constant/%s/D3,P2' % what, 'h_int_constant', what=what, D=3, P=2)
    add('solve/3x3,k1/UU/D3,P1', 'h_solve', n=3, k=1, kinds='UU', D=3, P=1)
    # complex operands (documented: complex_differentiation.rst) in every operand-kind combination
    for kinds in ('CC', 'CN', 'CK', 'NC', 'UK', 'KU', 'CU', 'UC'):
        add('solve/2x2,k1/%s (complex)/D3,P2' % kinds, 'h_solve', n=2, k=1, kinds=kinds, D=3, P=2)
    for kinds in ('CC', 'CU', 'UC', 'CK', 'KC', 'UK', 'KU'):
        add('dot/(2, 2).(2, 2)/%s (complex)/D3,P2' % kinds, 'h_dot', fn='dot', lshape=(2, 2), rshape=(2, 2), kinds=kinds, D=3, P=2)
        add('outer/(2,)x(3,)/%s (complex)/D3,P2' % kinds, 'h_dot', fn='outer', lshape=(2,), rshape=(3,), kinds=kinds, D=3, P=2)
    add('solve/2x2,k1/UU/out= reused workspace/D4,P2', 'h_solve', o={'dirty_out': True}, n=2, k=1, kinds='UU', D=4, P=2)
    add('solve/2x2,k2/UU/out= reused workspace/D3,P1', 'h_solve', o={'dirty_out': True}, n=2, k=2, kinds='UU', D=3, P=1)
    add('solve/3x3,k1/NU/D2,P2', 'h_solve', n=3, k=1, kinds='NU', D=2, P=2)
    add('solve/3x3,k2/UN/D2,P1', 'h_solve', n=3, k=2, kinds='UN', D=2, P=1)
    for fn in ('det', 'logdet'):
        add('%s/2x2/D%d,P2' % (fn, D), 'h_det', n=2, D=D, P=2, fn=fn)
        add('%s/2x2/D5,P1' % fn, 'h_det', n=2, D=5, P=1, fn=fn)
        add('%s/3x3/D%d,P1' % (fn, 3 if tier != 'quick' else 2), 'h_det', n=3, D=3 if tier != 'quick' else 2, P=1, fn=fn)
    add('det/1x1/D3,P2', 'h_det', n=1, D=3, P=2)
    # Fortran-ordered coefficient matrices (what a transposed view hands to the LAPACK wrappers, which may
    # factorise such an array in place): same results, operands unchanged
    F = {'layout': 'F'}
    for fn in ('det', 'logdet'):
        add('%s/2x2, Fortran-ordered/D3,P2' % fn, 'h_det', o=F, n=2, D=3, P=2, fn=fn)
        add('%s/3x3, Fortran-ordered/D2,P1' % fn, 'h_det', o=F, n=3, D=2, P=1, fn=fn)
    add('inv/2x2, Fortran-ordered/D3,P2', 'h_inv', o=F, n=2, D=3, P=2)
    add('inv/3x3, Fortran-ordered/D2,P1', 'h_inv', o=F, n=3, D=2, P=1)
    for kinds in ('UU', 'NU', 'UN'):
        add('solve/2x2,k2/%s, Fortran-ordered/D3,P2' % kinds, 'h_solve', o=F, n=2, k=2, kinds=kinds, D=3, P=2)
        add('dot/(2, 3).(3, 2)/%s, Fortran-ordered/D3,P2' % kinds, 'h_dot', o=F, fn='dot', lshape=(2, 3), rshape=(3, 2), kinds=kinds, D=3, P=2)
    add('solve/3x3,k1/UU, Fortran-ordered/D2,P1', 'h_solve', o=F, n=3, k=1, kinds='UU', D=2, P=1)
    add('trace/3x3, Fortran-ordered/D3,P2', 'h_trace', o=F, n=3, D=3, P=2)
    add('det/complex 2x2/D3,P2 (float-decided)', 'h_complex_lu', n=2, D=3, P=2)
    add('det/complex 3x3/D3,P1 (float-decided)', 'h_complex_lu', n=3, D=3, P=1)
    for k in (520, -520):
        add('logdet/2x2 entries of magnitude 2**%d/D3,P1' % k, 'h_det', o={'exact_eval': True}, n=2, D=3, P=1, fn='logdet', scale=k)
    add('expm/2x2/D2,P1', 'h_expm', o={'unit_timeout': 600}, n=2, D=2, P=1)
    # every order of the fixed-order Pade family (expm_pade(A, q)); 1x1 matrices for the long tables
    for q in (3, 5, 7, 9, 13):
        add('expm_pade(q=%d)/1x1/D3,P2' % q, 'h_expm_pade', q=q, n=1, D=3, P=2)
    for q in (3, 5):
        add('expm_pade(q=%d)/2x2/D2,P1' % q, 'h_expm_pade', o={'unit_timeout': 600}, q=q, n=2, D=2, P=1)
    for kinds in ('UU', 'UN', 'NU'):
        add('dot with out=/(2,3)x(3,)/%s/D2,P2' % kinds, 'h_dot_out', fn='dot', lshape=(2, 3), rshape=(3,), kinds=kinds, D=2, P=2)
        add('outer with out=/(2,)x(3,)/%s/D2,P2' % kinds, 'h_dot_out', fn='outer', lshape=(2,), rshape=(3,), kinds=kinds, D=2, P=2)
    add('iouter/(2,)x(3,)/D3,P2', 'h_iouter', lshape=(2,), rshape=(3,), D=3, P=2)
    add('iouter/(2,)x(2,)/D4,P1', 'h_iouter', lshape=(2,), rshape=(2,), D=4, P=1)
    for nrm in ('1/100', '1/10', '1/2', '3/2', '2', '3', '8', '30'):
        add('expm_higham_2005/3x3 at 1-norm %s (float-decided)' % nrm, 'h_expm_higham', norm=nrm)
    if tier != 'quick':
        add('expm/2x2/D2,P2', 'h_expm', o={'unit_timeout': 900}, n=2, D=2, P=2)
        add('inv/2x2/D6,P1', 'h_inv', n=2, D=6, P=1)
    return out
