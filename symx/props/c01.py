"""C01  Elementary functions return the Taylor coefficients of f(x(t)).

Unit = (function, D, P, shape, call route).  All coefficients x[d,p,i] are
symbolic (the zeroth one through the parametrisation the function needs), the
real algopy code runs on them, every output coefficient is compared with the
composition oracle  sum_k f^(k)(x0)/k! (x(t)-x0)^k  (lib.compose) whose
derivative tables are textbook closed forms."""
import itertools
import math
from fractions import Fraction

import numpy as np

import symx
from .. import sym as S
from .. import lib, npx
from ..lib import F
from ..runner import Unit
from .common import mk_utpm, x0_for, x0_for_complex, data_of

PROP = 'C01'

# name -> (derivative table, call kind)
UNARY = {
    'exp': lib.d_exp, 'expm1': lib.d_expm1, 'log': lib.d_log, 'log1p': lib.d_log1p,
    'sqrt': lib.d_sqrt, 'sin': lib.d_sin, 'cos': lib.d_cos, 'tan': lib.d_tan,
    'arcsin': lib.d_arcsin, 'arccos': lib.d_arccos, 'arctan': lib.d_arctan,
    'sinh': lib.d_sinh, 'cosh': lib.d_cosh, 'tanh': lib.d_tanh,
    'reciprocal': lib.d_reciprocal, 'square': lib.d_square,
}
SPECIAL = {
    'erf': lib.d_erf, 'erfi': lib.d_erfi, 'dawsn': lib.d_dawsn, 'logit': lib.d_logit,
    'expit': lib.d_expit, 'gammaln': lib.d_gammaln, 'psi': lib.d_psi,
}


def call_function(algopy, fname, x, via, params):
    """invoke the real code by the public route `via`"""
    if fname in UNARY:
        if via == 'numpy':
            return getattr(np, fname)(x)
        if via == 'method' and hasattr(x, fname) and fname not in ('reciprocal', 'square'):
            return getattr(x, fname)()
        return getattr(algopy, fname)(x)
    if fname in SPECIAL:
        return getattr(algopy.special, fname)(x)
    if fname == 'polygamma':
        return algopy.special.polygamma(params['m'], x)
    if fname == 'hyperu':
        return algopy.special.hyperu(float(Fraction(params['a'])), float(Fraction(params['b'])), x)
    if fname == 'powi':
        return x ** params['n']
    if fname == 'powi_np':
        return np.power(x, params['n']) if False else x ** np.int64(params['n'])
    if fname == 'powf':
        return x ** float(Fraction(params['r']))
    if fname == 'pownd0':
        return x ** np.array(int(Fraction(params['r'])), dtype=params.get('dt', 'int64'))
    if fname == 'powr':
        return x ** params['rsym']
    if fname == 'rpow':
        return params['csym'] ** x
    raise KeyError(fname)


def h_unary(ctx, fname, D, P, shape, via='algopy', params=None, cplx=False, layout=None):
    algopy = symx.load_algopy()
    params = dict(params or {})
    shape = tuple(shape)
    table = None
    extra_kw = {}
    if fname == 'powr':
        params['rsym'] = ctx.var('r')
    if fname == 'rpow':
        params['csym'] = ctx.var('c', pos=True)
    # inputs
    X = np.empty((D, P) + shape, dtype=object if ctx.mode == 'sym' else (complex if cplx else float))
    info = {}
    for p in range(P):
        for i in np.ndindex(*shape):
            tag = 'p%d%s' % (p, ''.join('_%d' % j for j in i))
            # non-negative integer powers are polynomials: regular everywhere, x0 = 0 included
            dom = 'exp' if (fname in ('powi', 'powi_np') and params['n'] >= 0) else fname
            if fname in ('powf', 'pownd0') and Fraction(params['r']).denominator == 1:
                # float-typed exponent with an integer value (x**2.0, x**-3.0) or a 0-d array: analytic
                # for every non-zero base, negative ones included; a polynomial (regular at x0 = 0
                # too) when the value is non-negative
                dom = 'reciprocal' if Fraction(params['r']) < 0 else 'exp'
            x0, ex = x0_for_complex(ctx, dom, tag) if cplx else x0_for(ctx, dom, tag)
            if cplx and params and params.get('im_between'):
                # the imaginary part of the base point in a given band (e.g. beyond pi/2, where cos(Im x0) < 0)
                lo, hi = params['im_between']
                im = x0.im if ctx.mode == 'sym' else x0.imag
                ctx.assume(im > lo)
                ctx.assume(im < hi)
            if cplx and params and params.get('re_between'):
                lo, hi = params['re_between']
                re_ = x0.re if ctx.mode == 'sym' else x0.real
                ctx.assume(re_ > lo)
                ctx.assume(re_ < hi)
            X[(0, p) + i] = x0
            info[(p,) + i] = ex
            for d in range(1, D):
                X[(d, p) + i] = ctx.cvar('x%d_%s' % (d, tag)) if cplx else ctx.var('x%d_%s' % (d, tag))
    if layout == 'T':
        # the operand is a transposed (non-contiguous) view of another polynomial
        base = mk_utpm(ctx, algopy, np.transpose(X, (0, 1) + tuple(range(2, X.ndim))[::-1]).copy())
        x = base.T
        ctx.fact(plain_shape(x) == shape, 'transposed operand has shape %s' % (shape,))
    else:
        x = mk_utpm(ctx, algopy, X)
    y = call_function(algopy, fname, x, via, params)
    Y = data_of(ctx, algopy, y, (D, P) + shape)
    ctx.fact(Y.shape == (D, P) + shape, 'result shape %s == %s' % (Y.shape, (D, P) + shape))
    for p in range(P):
        for i in np.ndindex(*shape):
            xs = [X[(d, p) + i] for d in range(D)]
            ders = derivs(ctx, fname, xs[0], D - 1, params, info[(p,) + i])
            ref = lib.compose(ders, xs, D)
            for d in range(D):
                ctx.eq(Y[(d, p) + i], ref[d], 'y[%d,%d%s]' % (d, p, ''.join(',%d' % j for j in i)))


def plain_shape(x):
    return tuple(x.data.shape[2:])


def h_recompute(ctx, fname, D, P):
    """the result is a function of the current coefficients only: evaluate, update the
    operand in place, evaluate again == evaluating a fresh copy of the updated operand"""
    algopy = symx.load_algopy()
    shape = (2,)
    X = np.empty((D, P) + shape, dtype=object if ctx.mode == 'sym' else float)
    for p in range(P):
        for i in range(2):
            x0, ex = x0_for(ctx, 'powf' if fname in ('log', 'sqrt', 'gammaln') else 'exp', 'p%d_%d' % (p, i))
            X[0, p, i] = x0
            for d in range(1, D):
                X[d, p, i] = ctx.var('x%d_p%d_%d' % (d, p, i))
    c = ctx.var('c', pos=True)
    x = mk_utpm(ctx, algopy, X)
    y1 = call_function(algopy, fname, x, 'algopy', {})
    y1c = data_of(ctx, algopy, y1).copy()
    x += c                                   # in-place update of the same object
    y2 = call_function(algopy, fname, x, 'algopy', {})
    X2 = X.copy()
    X2[0] = X2[0] + c
    y2ref = call_function(algopy, fname, mk_utpm(ctx, algopy, X2), 'algopy', {})
    ctx.eq(data_of(ctx, algopy, y2), data_of(ctx, algopy, y2ref), '%s after x += c == %s of a fresh copy' % (fname, fname))
    ctx.eq(data_of(ctx, algopy, y1), y1c, 'first result not changed by the later update')
    x[1] = x[0] * 2.0                        # item assignment
    X3 = X2.copy()
    X3[:, :, 1] = X3[:, :, 0] * (2 if ctx.mode == 'sym' else 2.0)
    y3 = call_function(algopy, fname, x, 'algopy', {})
    y3ref = call_function(algopy, fname, mk_utpm(ctx, algopy, X3), 'algopy', {})
    ctx.eq(data_of(ctx, algopy, y3), data_of(ctx, algopy, y3ref), '%s after x[1] = ... == fresh' % fname)


def derivs(ctx, fname, x0, K, params, ex):
    if fname in UNARY:
        if fname in ('arcsin', 'arccos'):
            return UNARY[fname](ctx, x0, K, Z=ex['Z'])
        return UNARY[fname](ctx, x0, K)
    if fname in SPECIAL:
        return SPECIAL[fname](ctx, x0, K)
    if fname == 'polygamma':
        return lib.d_polygamma(ctx, x0, K, m=params['m'])
    if fname == 'hyperu':
        return lib.d_hyperu(ctx, x0, K, a=params['a'], b=params['b'])
    if fname in ('powi', 'powi_np'):
        return lib.d_powi(ctx, x0, K, n=params['n'])
    if fname in ('powf', 'pownd0'):
        if Fraction(params['r']).denominator == 1 and Fraction(params['r']) >= 0:
            return lib.d_powi(ctx, x0, K, n=int(Fraction(params['r'])))
        return lib.d_powr(ctx, x0, K, r=Fraction(params['r']))
    if fname == 'powr':
        return lib.d_powr(ctx, x0, K, r=params['rsym'])
    if fname == 'rpow':
        return lib.d_rpow(ctx, x0, K, c=params['csym'])
    raise KeyError(fname)


def h_pow_utpm(ctx, D, P):
    """x ** y with both polynomials: oracle exp(log(x) * y) by composition"""
    algopy = symx.load_algopy()
    X = np.empty((D, P), dtype=object if ctx.mode == 'sym' else float)
    Yv = np.empty((D, P), dtype=object if ctx.mode == 'sym' else float)
    for p in range(P):
        X[0, p] = ctx.var('x0_p%d' % p, pos=True)
        Yv[0, p] = ctx.var('y0_p%d' % p)
        for d in range(1, D):
            X[d, p] = ctx.var('x%d_p%d' % (d, p))
            Yv[d, p] = ctx.var('y%d_p%d' % (d, p))
    x = mk_utpm(ctx, algopy, X)
    y = mk_utpm(ctx, algopy, Yv)
    z = x ** y
    Z = data_of(ctx, algopy, z, (D, P))
    for p in range(P):
        xs = [X[d, p] for d in range(D)]
        ys = [Yv[d, p] for d in range(D)]
        L = lib.compose(lib.d_log(ctx, xs[0], D - 1), xs, D)
        M = lib.ps_mul(L, ys, D)
        ref = lib.compose([F.exp(M[0])] * D, M, D)
        for d in range(D):
            ctx.eq(Z[d, p], ref[d], 'z[%d,%d]' % (d, p))


def h_kink(ctx, fname, D, P, n):
    """absolute / sign / minimum / maximum / clip away from the kink: on every
    sign/order path the result is the selected smooth branch"""
    algopy = symx.load_algopy()
    X = np.empty((D, P, n), dtype=object if ctx.mode == 'sym' else float)
    for idx in np.ndindex(D, P, n):
        X[idx] = ctx.var('x%d_p%d_%d' % idx)
    x = mk_utpm(ctx, algopy, X)
    if fname in ('minimum', 'maximum'):
        Yv = np.empty((D, P, n), dtype=object if ctx.mode == 'sym' else float)
        for idx in np.ndindex(D, P, n):
            Yv[idx] = ctx.var('y%d_p%d_%d' % idx)
        y = mk_utpm(ctx, algopy, Yv)
        for p in range(P):
            for i in range(n):
                ctx.assume(X[0, p, i] != Yv[0, p, i])
        z = getattr(algopy, fname)(x, y)
        Z = data_of(ctx, algopy, z, (D, P, n))
        for p in range(P):
            for i in range(n):
                xless = bool(X[0, p, i] < Yv[0, p, i])
                pick_x = xless if fname == 'minimum' else not xless
                for d in range(D):
                    ctx.eq(Z[d, p, i], X[d, p, i] if pick_x else Yv[d, p, i], '%s[%d,%d,%d]' % (fname, d, p, i))
        return
    if fname == 'clip':
        lo = ctx.var('a_min')
        hi = ctx.var('a_max')
        ctx.assume(lo < hi)
        for p in range(P):
            for i in range(n):
                ctx.assume(X[0, p, i] != lo)
                ctx.assume(X[0, p, i] != hi)
        z = algopy.special.botched_clip(lo, hi, x)
        Z = data_of(ctx, algopy, z, (D, P, n))
        for p in range(P):
            for i in range(n):
                below = bool(X[0, p, i] < lo)
                above = (not below) and bool(X[0, p, i] > hi)
                for d in range(D):
                    if below:
                        ref = lo if d == 0 else 0
                    elif above:
                        ref = hi if d == 0 else 0
                    else:
                        ref = X[d, p, i]
                    ctx.eq(Z[d, p, i], ref, 'clip[%d,%d,%d]' % (d, p, i))
        return
    for p in range(P):
        for i in range(n):
            ctx.assume(X[0, p, i] != 0)
    if fname == 'absolute':
        z = algopy.absolute(x)
    elif fname == 'abs':
        z = abs(x)
    elif fname == 'sign':
        z = algopy.sign(x)
    else:
        raise KeyError(fname)
    Z = data_of(ctx, algopy, z, (D, P, n))
    for p in range(P):
        for i in range(n):
            posv = bool(X[0, p, i] > 0)
            for d in range(D):
                if fname == 'sign':
                    ref = (1 if posv else -1) if d == 0 else 0
                else:
                    ref = X[d, p, i] if posv else -X[d, p, i]
                ctx.eq(Z[d, p, i], ref, '%s[%d,%d,%d]' % (fname, d, p, i))


def h_pairs(ctx, which, D, P):
    """methods that return two functions at once: x.sincos(), x.sinhcosh(), x.tansec2()"""
    algopy = symx.load_algopy()
    first, second = {'sincos': ('sin', 'cos'), 'sinhcosh': ('sinh', 'cosh'), 'tansec2': ('tan', None)}[which]
    X = np.empty((D, P), dtype=object if ctx.mode == 'sym' else float)
    info = {}
    for p in range(P):
        x0, ex = x0_for(ctx, first, 'p%d' % p)
        X[0, p] = x0
        info[p] = ex
        for d in range(1, D):
            X[d, p] = ctx.var('x%d_p%d' % (d, p))
    x = mk_utpm(ctx, algopy, X)
    try:
        a, b = getattr(x, which)()
    except Exception as e:
        ctx.fact(False, 'x.%s() raised %s: %s' % (which, type(e).__name__, str(e)[:80]))
        return
    A, B = data_of(ctx, algopy, a, (D, P)), data_of(ctx, algopy, b, (D, P))
    for p in range(P):
        xs = [X[d, p] for d in range(D)]
        ra = lib.compose(derivs(ctx, first, xs[0], D - 1, {}, info[p]), xs, D)
        if second is not None:
            rb = lib.compose(derivs(ctx, second, xs[0], D - 1, {}, info[p]), xs, D)
        else:
            sq = lib.ps_mul(ra, ra, D)
            rb = [sq[d] + (1 if d == 0 else 0) for d in range(D)]        # sec^2 = 1 + tan^2
        for d in range(D):
            ctx.eq(A[d, p], ra[d], '%s()[0][%d,%d]' % (which, d, p))
            ctx.eq(B[d, p], rb[d], '%s()[1][%d,%d]' % (which, d, p))


def h_int_typed(ctx, fname):
    """coefficient array of integer dtype (a real-valued polynomial whose coefficients happen to be
    whole numbers, e.g. UTPM(numpy.array([[[1, 2]], [[3, 4]], [[5, 6]]]))): same result as for the
    float array with the same values"""
    algopy = symx.load_algopy()
    vals = [[[1, 2]], [[3, 4]], [[5, 6]]]
    if ctx.mode == 'sym':
        # the data are concrete whole numbers and the effect is one of storage dtype: nothing is
        # symbolic here; the unit is decided by the run on the float build (translation validation)
        ctx.fact(True, 'concrete integer-typed data: decided on the float build')
        ctx.eq(S.const(0), S.const(0), '%s(integer-typed) == %s(float-typed)' % (fname, fname))
        return
    xi = algopy.UTPM(np.array(vals, dtype=int))
    xf = algopy.UTPM(np.array(vals, dtype=float))
    try:
        yi = call_function(algopy, fname, xi, 'algopy', {})
    except Exception as e:
        ctx.fact(False, '%s of an integer-typed coefficient array raised %s: %s' % (fname, type(e).__name__, str(e)[:80]))
        return
    yf = call_function(algopy, fname, xf, 'algopy', {})
    ctx.eq(data_of(ctx, algopy, yi), data_of(ctx, algopy, yf), '%s(integer-typed) == %s(float-typed)' % (fname, fname))


# ---------------------------------------------------------------------------

def units(tier, seed):
    out = []

    def add(name, func, **kw):
        out.append(Unit('C01/' + name, 'symx.props.c01', func, kw, {'property': PROP, 'path_budget': 200, 'definedness': True}))

    if tier == 'quick':
        cfgs = [(5, 1, ()), (4, 2, (2,))]
        powD = 4
    else:
        cfgs = [(10, 1, ()), (8, 2, (2,)), (6, 3, (2, 2)), (9, 2, ()), (14, 1, ()), (5, 4, (2,)), (4, 2, (2, 3)), (12, 1, (2,))]
        powD = 8
    fnames = list(UNARY) + list(SPECIAL)
    for fname in fnames:
        for (D, P, shape) in cfgs:
            if D >= 14 and fname in ('arcsin', 'arccos'):
                continue      # (the normal form of the order-13 coefficient in sqrt(1 - x0^2) exceeds the unit time limit; D = 12 takes 40 s)
            add('%s/D%d,P%d,%s' % (fname, D, P, shape), 'h_unary', fname=fname, D=D, P=P, shape=shape)
    # non-contiguous operands (transposed views) and recomputation after in-place updates
    for fname in fnames:
        add('%s/size-1 axes/D3,P2,(1, 2, 1)' % fname, 'h_unary', fname=fname, D=3, P=2, shape=(1, 2, 1))
    for fname in fnames:
        add('%s/transposed view/D3,P2,(2, 3)' % fname, 'h_unary', fname=fname, D=3, P=2, shape=(2, 3), layout='T')
    for fname in ['exp', 'log', 'sqrt', 'sin', 'cos', 'tan', 'sinh', 'tanh', 'erf', 'expit', 'gammaln', 'reciprocal', 'square', 'arctan']:
        add('%s/recompute after in-place update/D3,P1' % fname, 'h_recompute', fname=fname, D=3, P=1)
    # numpy ufunc dispatch and method route
    for fname in ['exp', 'log', 'sqrt', 'sin', 'cos', 'tan', 'arcsin', 'arccos', 'arctan', 'sinh', 'cosh', 'tanh']:
        add('%s/numpy-ufunc/D4,P2' % fname, 'h_unary', fname=fname, D=4, P=2, shape=(), via='numpy')
        if tier != 'quick':
            add('%s/numpy-ufunc/D5,P1,(2,)' % fname, 'h_unary', fname=fname, D=5, P=1, shape=(2,), via='numpy')
            add('%s/method/D5,P2' % fname, 'h_unary', fname=fname, D=5, P=2, shape=(), via='method')
    for m in ([1, 2] if tier == 'quick' else [0, 1, 2, 3]):
        for (D, P, shape) in cfgs[:2]:
            add('polygamma%d/D%d,P%d,%s' % (m, D, P, shape), 'h_unary', fname='polygamma', D=D, P=P, shape=shape, params={'m': m})
    for (a, b) in ([('3/2', '1/2'), ('1', '3'), ('-1/2', '3/2')] if tier == 'quick' else [('3/2', '1/2'), ('1', '3'), ('1/2', '5/2'), ('2', '2'), ('-1/2', '3/2'), ('-5/2', '1/2')]):
        for (D, P, shape) in cfgs[:2]:
            add('hyperu(%s,%s)/D%d,P%d,%s' % (a, b, D, P, shape), 'h_unary', fname='hyperu', D=D, P=P, shape=shape, params={'a': a, 'b': b})
    # high degree: table-driven helpers (factorials, binomials) beyond 20! (int64 range); 22! is the last factorial that is an exact double
    for fname in (['gammaln', 'psi'] if tier == 'quick' else ['gammaln', 'psi', 'exp', 'sin', 'log', 'erf', 'dawsn']):
        add('%s/D23,P1,()' % fname, 'h_unary', fname=fname, D=23, P=1, shape=())
    add('polygamma1/D23,P1,()', 'h_unary', fname='polygamma', D=23, P=1, shape=(), params={'m': 1})
    add('hyperu(3/2,1/2)/D23,P1,()', 'h_unary', fname='hyperu', D=23, P=1, shape=(), params={'a': '3/2', 'b': '1/2'})
    for n in range(-3, 6):
        add('pow_int(%d)/D%d,P2' % (n, powD), 'h_unary', fname='powi', D=powD, P=2, shape=(2,), params={'n': n})
    for n in (6, 7, 8, 10, 12, 13, -4, -6):     # (larger exponents: square-and-multiply style shortcuts)
        add('pow_int(%d)/D3,P2' % n, 'h_unary', fname='powi', D=3, P=2, shape=(), params={'n': n})
    for n in ([3, 4] if tier == 'quick' else [0, 1, 2, 3, 4, 6]):
        add('pow_npint(%d)/D%d,P1' % (n, powD), 'h_unary', fname='powi_np', D=powD, P=1, shape=(), params={'n': n})
    for r in (['1/2', '5/2', '-3/2'] if tier == 'quick' else ['1/2', '5/2', '-3/2', '1/3', '7/4', '-1/2']):
        add('pow_float(%s)/D%d,P2' % (r, powD), 'h_unary', fname='powf', D=powD, P=2, shape=(), params={'r': r})
    for r in (['2', '3', '-2'] if tier == 'quick' else ['2', '3', '4', '-1', '-2', '-3']):
        add('pow_float(%s.0), integer-valued float exponent, base of either sign/D%d,P2' % (r, min(powD, 5)), 'h_unary', fname='powf',
            D=min(powD, 5), P=2, shape=(), params={'r': r})
    for r, dt in (('2', 'int64'), ('3', 'uint8'), ('0', 'int64'), ('-2', 'int64')):
        add('pow(0-d %s array %s)/D4,P2' % (dt, r), 'h_unary', fname='pownd0', D=4, P=2, shape=(), params={'r': r, 'dt': dt})
    for r in ('0', '1'):
        add('pow_float(%s.0), base of either sign or zero/D4,P2' % r, 'h_unary', fname='powf', D=4, P=2, shape=(), params={'r': r})
    # complex coefficients (where NumPy/SciPy support them and the oracle is rational in the atoms)
    cD, cP = (3, 1) if tier == 'quick' else (6, 2)
    for fname in ['exp', 'expm1', 'log', 'log1p', 'sqrt', 'sin', 'cos', 'sinh', 'cosh', 'reciprocal', 'square', 'tan', 'tanh']:
        add('%s/complex/D%d,P%d' % (fname, cD, cP), 'h_unary', fname=fname, D=cD, P=cP, shape=(2,) if tier != 'quick' else (), cplx=True)
    for fname in ['exp', 'sin', 'cos', 'sinh', 'cosh', 'tan', 'tanh']:
        add('%s/complex, 2 < Im x0 < 4/D3,P1' % fname, 'h_unary', fname=fname, D=3, P=1, shape=(), cplx=True, params={'im_between': (2, 4)})
        add('%s/complex, -4 < Re x0 < -2/D3,P1' % fname, 'h_unary', fname=fname, D=3, P=1, shape=(), cplx=True, params={'re_between': (-4, -2)})
    # arguments of magnitude 1e-13: zeroth coefficients compared RELATIVELY with NumPy (harness of C10); separates
    # log1p(x) from log(1 + x), expm1(x) from exp(x) - 1, ...
    for fname in ['log1p', 'expm1', 'sin', 'tan', 'arcsin', 'arctan', 'sinh', 'tanh', 'erf', 'dawsn']:
        out.append(Unit('C01/%s/argument of magnitude 1e-13, relative comparison/D2,P1' % fname, 'symx.props.c10', 'h_zeroth',
                        {'opname': fname, 'D': 2, 'P': 1, 'scale': '1/10000000000000'}, {'property': PROP, 'float_rel': 1e-11}))
    for n in (-2, 2, 3, 4):
        add('pow_int(%d)/complex/D%d,P%d' % (n, cD, cP), 'h_unary', fname='powi', D=cD, P=cP, shape=(), params={'n': n}, cplx=True)
    add('pow_real(symbolic r)/D%d,P2' % powD, 'h_unary', fname='powr', D=powD, P=2, shape=(2,))
    add('rpow(symbolic c)/D%d,P2' % powD, 'h_unary', fname='rpow', D=powD, P=2, shape=(2,))
    add('pow_utpm/D%d,P2' % min(powD, 5), 'h_pow_utpm', D=min(powD, 5), P=2)
    for fname in ['exp', 'sin', 'sqrt', 'reciprocal', 'square', 'tanh', 'erf', 'log']:
        add('integer-typed coefficient array/%s' % fname, 'h_int_typed', fname=fname)
    for which in ('sincos', 'sinhcosh', 'tansec2'):
        add('%s() method/D4,P2' % which, 'h_pairs', which=which, D=4, P=2)
    kD = 3 if tier == 'quick' else 4
    for fname in ['absolute', 'abs', 'sign', 'minimum', 'maximum', 'clip']:
        add('%s/D%d,P1,n2' % (fname, kD), 'h_kink', fname=fname, D=kD, P=1, n=2)
        if tier != 'quick':
            add('%s/D3,P2,n2' % fname, 'h_kink', fname=fname, D=3, P=2, n=2)
    return out
