"""C17  Conversions between representations are lossless and mutually inverse.

Distinct-symbol arrays go through the real helpers; the output term at every
position must be the input symbol of the specified position (decided by
hash-consing / solver).  Pivot vectors: the LU model on a fully symbolic A0
forks over every feasible pivot sequence; on each path the real
piv2mat / piv2det must satisfy P L U = A0 and sign * prod(diag U) = det(A0)
(Leibniz) for all values on the path."""
import itertools

import numpy as np

import symx
from .. import sym as S
from .. import npx, stubs
from ..runner import Unit
from .common import mk_utpm, mk_array, plain

PROP = 'C17'
EXPLANATION = 'C17: round trips on arrays of distinct symbols; pivot helpers on every feasible pivot path of the LU model.'


def _vars(ctx, name, shape):
    A = np.empty(shape, dtype=object)
    for idx in np.ndindex(*shape):
        A[idx] = ctx.var('%s%s' % (name, list(idx)))
    return A


def h_dirs(ctx, D, P, shape):
    algopy = symx.load_algopy()
    from algopy import utils
    shape = tuple(shape)
    X = _vars(ctx, 'u', (D, P) + shape)
    u = mk_utpm(ctx, algopy, X)
    V = plain(utils.utpm2dirs(u))
    ctx.fact(V.shape == shape + (P, D), 'utpm2dirs shape')
    for idx in np.ndindex(*shape):
        for p in range(P):
            for d in range(D):
                ctx.eq(V[idx + (p, d)], X[(d, p) + idx], 'utpm2dirs%s' % list(idx + (p, d)))
    # base + directions -> utpm -> base + directions
    x = _vars(ctx, 'x', shape)
    W = _vars(ctx, 'V', shape + (P, D - 1)) if D > 1 else None
    if D > 1:
        u2 = utils.base_and_dirs2utpm(mk_array(ctx, x), mk_array(ctx, W))
        U2 = plain(u2.data)
        ctx.fact(U2.shape == (D, P) + shape, 'base_and_dirs2utpm shape')
        for idx in np.ndindex(*shape):
            for p in range(P):
                ctx.eq(U2[(0, p) + idx], x[idx], 'b&d2utpm base%s' % list((p,) + idx))
                for d in range(1, D):
                    ctx.eq(U2[(d, p) + idx], W[idx + (p, d - 1)], 'b&d2utpm dir%s' % list((d, p) + idx))
        xb, Vb = utils.utpm2base_and_dirs(u2)
        ctx.eq(plain(xb), x, 'utpm2base_and_dirs(base_and_dirs2utpm).x')
        ctx.eq(plain(Vb), W, 'utpm2base_and_dirs(base_and_dirs2utpm).V')
        # the other way round (common base point)
        Xc = X.copy()
        for p in range(1, P):
            Xc[0, p] = Xc[0, 0]
        uc = mk_utpm(ctx, algopy, Xc)
        xb, Vb = utils.utpm2base_and_dirs(uc)
        u3 = utils.base_and_dirs2utpm(xb, Vb)
        ctx.eq(plain(u3.data), Xc, 'base_and_dirs2utpm(utpm2base_and_dirs(u))')


def h_coeff_op(ctx, D, P):
    """coeff_op(sl, shp): the selected coefficients regrouped into a new shape, entry k of the
    selection landing at numpy.unravel_index(k, shp) whatever the memory layout of the data"""
    algopy = symx.load_algopy()
    X = _vars(ctx, 'x', (D, P, 6))
    for label, shp, sl in (('6 -> 2x3', (D, P, 2, 3), (slice(None),)), ('6 -> 3x2', (D, P, 3, 2), (slice(None),)),
                           ('orders 1.. as a (D-1)P x 6 matrix', ((D - 1) * P, 6), (slice(1, None),))):
        x = mk_utpm(ctx, algopy, X)
        try:
            z = plain(x.coeff_op(sl, shp).data)
        except Exception as e:
            ctx.fact(False, 'coeff_op %s raised %s: %s' % (label, type(e).__name__, str(e)[:80]))
            continue
        ref = np.array(X[sl].tolist(), dtype=object).reshape(shp)
        ctx.fact(z.shape == ref.shape, 'coeff_op %s shape %s' % (label, z.shape))
        if z.shape == ref.shape:
            ctx.eq(z, ref, 'coeff_op %s' % label)
        ctx.eq(plain(x.data), X, 'coeff_op leaves its operand alone (%s)' % label)


def h_seed_roundtrip_complex(ctx, shape):
    """the same round trip with a COMPLEX base point and direction (complex-step style seeds):
    nothing is cast to real"""
    algopy = symx.load_algopy()
    UTPM = algopy.UTPM
    shape = tuple(shape)
    x = _cvars(ctx, 'x', shape)
    v = _cvars(ctx, 'v', shape)
    ca = lambda A: mk_array(ctx, A, complex) if ctx.mode == 'sym' else np.array(A.tolist(), dtype=complex).reshape(A.shape)
    u = UTPM.init_jac_vec(ca(x), ca(v))
    U = plain(u.data)
    ctx.fact(U.shape == (2, 1) + shape, 'init_jac_vec shape %s' % (U.shape,))
    ctx.eq(U[0, 0], x, 'init_jac_vec complex base point')
    ctx.eq(U[1, 0], v, 'init_jac_vec complex direction')
    back = plain(np.asarray(UTPM.extract_jac_vec(u)))
    if back.shape == shape:
        ctx.eq(back, v, 'extract_jac_vec(init_jac_vec(x, v)) == v (complex)')
    if len(shape) == 1:
        uj = UTPM.init_jacobian(ca(x))
        ctx.eq(plain(uj.data)[0], np.array([x] * shape[0], dtype=object), 'init_jacobian complex base points')


def h_seed_roundtrip(ctx, shape):
    """base point + direction -> polynomial (init_jac_vec / init_hess_vec / init_jacobian) -> read
    back with the matching extract_*: the direction array of any shape comes back unchanged"""
    algopy = symx.load_algopy()
    UTPM = algopy.UTPM
    shape = tuple(shape)
    x = _vars(ctx, 'x', shape)
    v = _vars(ctx, 'v', shape)
    u = UTPM.init_jac_vec(mk_array(ctx, x), mk_array(ctx, v))
    U = plain(u.data)
    ctx.fact(U.shape == (2, 1) + shape, 'init_jac_vec shape %s' % (U.shape,))
    ctx.eq(U[0, 0], x, 'init_jac_vec base point')
    ctx.eq(U[1, 0], v, 'init_jac_vec direction')
    back = plain(np.asarray(UTPM.extract_jac_vec(u)))
    ctx.fact(back.shape == shape, 'extract_jac_vec(init_jac_vec(x, v)) has the shape of v: %s vs %s' % (back.shape, shape))
    if back.shape == shape:
        ctx.eq(back, v, 'extract_jac_vec(init_jac_vec(x, v)) == v')
    if len(shape) == 2:
        # matrix-shaped seed points, C-ordered and as a transposed (Fortran-ordered) view: the base
        # point of every direction is x in row-major index order
        xt = _vars(ctx, 'xt', shape[::-1])
        for label, arr, ref in (('C order', mk_array(ctx, x), x), ('transposed view', mk_array(ctx, xt).T, xt.T)):
            N = int(np.prod(shape))
            for init in ('init_jacobian', 'init_hessian'):
                try:
                    uu = getattr(UTPM, init)(arr)
                except NotImplementedError:
                    continue
                U0 = plain(uu.data)[0]
                ctx.fact(U0.shape[1:] in ((N,), tuple(np.shape(ref))), '%s(%s) base point shape %s' % (init, label, U0.shape))
                for p_ in range(U0.shape[0]):
                    ctx.eq(np.ravel(U0[p_]), np.ravel(np.array(ref, dtype=object)), '%s(%s) base point of direction %d' % (init, label, p_))
    if len(shape) == 1:
        N = shape[0]
        uj = UTPM.init_jacobian(mk_array(ctx, x))
        J = plain(np.asarray(UTPM.extract_jacobian(uj)))
        I = np.array([[1 if i == j else 0 for j in range(N)] for i in range(N)], dtype=object)
        ctx.eq(J, I, 'extract_jacobian(init_jacobian(x)) == identity')
        ctx.eq(plain(uj.data)[0], np.array([x] * N, dtype=object), 'init_jacobian base points')


def h_dirs_intbase(ctx, D, P):
    """integer-typed base point (a list / arange) with real directions"""
    algopy = symx.load_algopy()
    from algopy import utils
    x = np.array([1, 2, 3])
    W = _vars(ctx, 'V', (3, P, D - 1))
    for xin in (x, [1, 2, 3]):
        u = utils.base_and_dirs2utpm(xin, mk_array(ctx, W))
        U = plain(u.data)
        for p in range(P):
            ctx.eq(U[0, p], x, 'base')
            for d in range(1, D):
                ctx.eq(U[d, p], W[:, p, d - 1], 'dir[%d,%d]' % (d, p))
        xb, Vb = utils.utpm2base_and_dirs(u)
        ctx.eq(plain(Vb), W, 'round trip V')
        ctx.eq(plain(xb), x, 'round trip x')


def _symref(A, uplo):
    """the symmetric matrix a storage convention denotes"""
    n = A.shape[0]
    Sm = np.empty((n, n), dtype=object)
    for i in range(n):
        for j in range(n):
            if uplo == 'F':
                Sm[i, j] = (A[i, j] + A[j, i]) * S.const(1) / 2 if isinstance(A[i, j], S.Sym) else 0.5 * (A[i, j] + A[j, i])
            elif uplo == 'L':
                Sm[i, j] = A[max(i, j), min(i, j)]
            else:
                Sm[i, j] = A[min(i, j), max(i, j)]
    return Sm


def h_symvec(ctx, n, uplo, kind, D=2, P=2):
    algopy = symx.load_algopy()
    if kind == 'ndarray':
        A = _vars(ctx, 'A', (n, n))
        Aobj = mk_array(ctx, A)
        v = algopy.symvec(Aobj, uplo)
        vv = plain(v)
        Sm = _symref(A, uplo)
        ref = [Sm[i, j] for i in range(n) for j in range(i, n)]
        ctx.fact(vv.shape == (n * (n + 1) // 2,), 'symvec shape')
        ctx.eq(vv, np.array(ref, dtype=object), 'symvec == distinct entries row-wise')
        B = plain(algopy.vecsym(v))
        ctx.eq(B, Sm, 'vecsym(symvec(A))')
        w = _vars(ctx, 'w', (n * (n + 1) // 2,))
        ctx.eq(plain(algopy.symvec(algopy.vecsym(mk_array(ctx, w)), uplo)), w, 'symvec(vecsym(v))')
        return
    X = _vars(ctx, 'A', (D, P, n, n))
    x = mk_utpm(ctx, algopy, X)
    v = algopy.symvec(x, uplo)
    V = plain(v.data)
    ctx.fact(V.shape == (D, P, n * (n + 1) // 2), 'symvec shape')
    for d in range(D):
        for p in range(P):
            Sm = _symref(X[d, p], uplo)
            ref = [Sm[i, j] for i in range(n) for j in range(i, n)]
            ctx.eq(V[d, p], np.array(ref, dtype=object), 'symvec[%d,%d]' % (d, p))
            ctx.eq(plain(algopy.vecsym(v).data)[d, p], Sm, 'vecsym(symvec)[%d,%d]' % (d, p))
    W = _vars(ctx, 'w', (D, P, n * (n + 1) // 2))
    w = mk_utpm(ctx, algopy, W)
    ctx.eq(plain(algopy.symvec(algopy.vecsym(w), uplo).data), W, 'symvec(vecsym(v))')


def h_containers(ctx, D, P):
    algopy = symx.load_algopy()
    from algopy import utils, UTPM
    # nested container of scalar / vector polynomials <-> one polynomial
    els = {}
    objs = np.empty((2, 2), dtype=object)
    for i in range(2):
        for j in range(2):
            els[i, j] = _vars(ctx, 'e%d%d' % (i, j), (D, P, 3))
            objs[i, j] = mk_utpm(ctx, algopy, els[i, j])
    y = UTPM.as_utpm(objs)
    Y = plain(y.data)
    ctx.fact(Y.shape == (D, P, 2, 2, 3), 'as_utpm shape %s' % (Y.shape,))
    for i in range(2):
        for j in range(2):
            ctx.eq(Y[:, :, i, j], els[i, j], 'as_utpm[%d,%d]' % (i, j))
            ctx.eq(plain(y[i, j].data), els[i, j], 'as_utpm(...)[i,j] element access')
    lst = [mk_utpm(ctx, algopy, _vars(ctx, 's%d' % k, (D, P))) for k in range(3)]
    z = utils.ndarray2utpm(lst)
    Z = plain(z.data)
    ctx.fact(Z.shape == (D, P, 3), 'ndarray2utpm shape')
    for k in range(3):
        ctx.eq(Z[:, :, k], plain(lst[k].data), 'ndarray2utpm[%d]' % k)
    # combine_blocks
    blocks = [[_vars(ctx, 'b00', (D, P, 2, 1)), _vars(ctx, 'b01', (D, P, 2, 2))],
              [_vars(ctx, 'b10', (D, P, 1, 1)), _vars(ctx, 'b11', (D, P, 1, 2))]]
    cb = UTPM.combine_blocks([[mk_utpm(ctx, algopy, b) for b in row] for row in blocks])
    C = plain(cb.data)
    ctx.fact(C.shape == (D, P, 3, 3), 'combine_blocks shape')
    ctx.eq(C[:, :, :2, :1], blocks[0][0], 'block00')
    ctx.eq(C[:, :, :2, 1:], blocks[0][1], 'block01')
    ctx.eq(C[:, :, 2:, :1], blocks[1][0], 'block10')
    ctx.eq(C[:, :, 2:, 1:], blocks[1][1], 'block11')


def h_combine_mixed(ctx, D, P):
    """combine_blocks takes D and P as the maximum over the blocks: a direction-independent block
    stored with P=1 is broadcast to every direction"""
    algopy = symx.load_algopy()
    UTPM = algopy.UTPM
    b00 = _vars(ctx, 'b00', (D, P, 2, 1))
    b01 = _vars(ctx, 'b01', (D, 1, 2, 2))           # P = 1 block
    b10 = _vars(ctx, 'b10', (D, P, 1, 1))
    b11 = _vars(ctx, 'b11', (D, P, 1, 2))
    cb = UTPM.combine_blocks([[mk_utpm(ctx, algopy, b00), mk_utpm(ctx, algopy, b01)],
                              [mk_utpm(ctx, algopy, b10), mk_utpm(ctx, algopy, b11)]])
    C = plain(cb.data)
    ctx.fact(C.shape == (D, P, 3, 3), 'combine_blocks shape %s' % (C.shape,))
    ctx.eq(C[:, :, :2, :1], b00, 'block00')
    for p in range(P):
        ctx.eq(C[:, p, :2, 1:], b01[:, 0], 'the P=1 block in direction %d' % p)
    ctx.eq(C[:, :, 2:, :1], b10, 'block10')
    ctx.eq(C[:, :, 2:, 1:], b11, 'block11')


def h_dirs_intV(ctx, D, P):
    """non-integer base point with integer-typed direction array (numpy.eye(N, dtype=int) seeds):
    base_and_dirs2utpm keeps the base point exactly.  Concrete data: decided on the float build."""
    algopy = symx.load_algopy()
    from algopy import utils
    if ctx.mode == 'sym':
        ctx.fact(True, 'concrete integer-typed directions: decided on the float build')
        ctx.eq(S.const(0), S.const(0), 'base point kept')
        return
    x = np.array([0.25, -2.75, 1.5])
    V = np.zeros((3, P, D - 1), dtype=int)
    for p in range(P):
        V[p % 3, p, 0] = 1
    u = utils.base_and_dirs2utpm(x, V)
    for p in range(P):
        ctx.eq(plain(u.data)[0, p], x, 'base point kept in direction %d' % p)
        for d in range(1, D):
            ctx.eq(plain(u.data)[d, p], V[:, p, d - 1].astype(float), 'direction %d coefficient %d' % (p, d))
    xb, Vb = utils.utpm2base_and_dirs(u)
    ctx.eq(plain(xb), x, 'round trip x')
    ctx.eq(plain(Vb), V.astype(float), 'round trip V')


def _cvars(ctx, name, shape):
    A = np.empty(shape, dtype=object)
    for idx in np.ndindex(*shape):
        A[idx] = ctx.cvar('%s%s' % (name, list(idx)))
    return A


def h_complex(ctx, what, D, P):
    """the converters lose nothing for complex polynomials either (imaginary parts kept)"""
    algopy = symx.load_algopy()
    from algopy import utils
    UTPM = algopy.UTPM
    cu = lambda X: mk_utpm(ctx, algopy, X, complex) if ctx.mode == 'sym' else algopy.UTPM(np.array(X.tolist(), dtype=complex).reshape(X.shape))
    ca = lambda A: mk_array(ctx, A, complex) if ctx.mode == 'sym' else np.array(A.tolist(), dtype=complex).reshape(A.shape)
    if what == 'vecsym':
        W = _cvars(ctx, 'w', (D, P, 3))
        A = plain(algopy.vecsym(cu(W)).data)
        ref = np.empty((D, P, 2, 2), dtype=object)
        ref[:, :, 0, 0], ref[:, :, 0, 1], ref[:, :, 1, 0], ref[:, :, 1, 1] = W[:, :, 0], W[:, :, 1], W[:, :, 1], W[:, :, 2]
        ctx.eq(A, ref, 'vecsym of a complex polynomial')
        ctx.eq(plain(algopy.symvec(algopy.vecsym(cu(W))).data), W, 'symvec(vecsym(v)) complex')
    elif what == 'base_and_dirs':
        x = _cvars(ctx, 'x', (2,))
        V = _cvars(ctx, 'V', (2, P, D - 1))
        u = utils.base_and_dirs2utpm(ca(x), ca(V))
        U = plain(u.data)
        for p in range(P):
            ctx.eq(U[0, p], x, 'base point dir %d' % p)
            for d in range(1, D):
                ctx.eq(U[d, p], V[:, p, d - 1], 'direction %d order %d' % (p, d))
        xb, Vb = utils.utpm2base_and_dirs(u)
        ctx.eq(plain(xb), x, 'utpm2base_and_dirs x')
        ctx.eq(plain(Vb), V, 'utpm2base_and_dirs V')
    elif what == 'as_utpm':
        els = [[_cvars(ctx, 'e%d%d' % (i, j), (D, P)) for j in range(2)] for i in range(2)]
        objs = np.empty((2, 2), dtype=object)
        for i in range(2):
            for j in range(2):
                objs[i, j] = cu(els[i][j])
        Y = plain(UTPM.as_utpm(objs).data)
        for i in range(2):
            for j in range(2):
                ctx.eq(Y[:, :, i, j], els[i][j], 'as_utpm[%d,%d] complex' % (i, j))
    elif what == 'as_utpm, real entries first':
        # a real polynomial first, complex ones (and a complex number) after it: the container's type is
        # the common type of its entries
        r0 = _vars(ctx, 'r0', (D, P))
        z1, z2 = _cvars(ctx, 'z1', (D, P)), _cvars(ctx, 'z2', (D, P))
        zc = ctx.cvar('zc')
        objs = np.empty(4, dtype=object)
        objs[0], objs[1], objs[2], objs[3] = mk_utpm(ctx, algopy, r0), cu(z1), zc, cu(z2)
        Y = plain(UTPM.as_utpm(objs).data)
        ctx.eq(Y[:, :, 0], r0, 'as_utpm mixed: real entry')
        ctx.eq(Y[:, :, 1], z1, 'as_utpm mixed: complex entry after a real one')
        ctx.eq(Y[:, :, 3], z2, 'as_utpm mixed: second complex entry')
        for p in range(P):
            ctx.eq(Y[0, p, 2], zc, 'as_utpm mixed: complex number, direction %d' % p)
    elif what == 'FtoJT, JTtoF':
        W = _cvars(ctx, 'w', (D + 1, P, 2))
        x = cu(W)
        back = plain(x.FtoJT().JTtoF().data)
        ctx.fact(back.shape == (D + 1, P, 2), 'JTtoF(FtoJT(x)) shape %s' % (back.shape,))
        if back.shape == (D + 1, P, 2):
            ctx.eq(back[:-1], W[1:], 'JTtoF(FtoJT(x)) keeps the coefficients 1.. of a complex polynomial')
    elif what == 'combine_blocks, wide and tall grids':
        # 1x3 and 3x1 grids of blocks, complex data only in the LAST block (real blocks first)
        for grid in ((1, 3), (3, 1), (2, 3)):
            R, Cn = grid
            blocks, refs = [], []
            for r in range(R):
                row, rrow = [], []
                for c in range(Cn):
                    last = (r == R - 1 and c == Cn - 1)
                    B = (_cvars if last else _vars)(ctx, 'g%d%d_%d%d' % (R, Cn, r, c), (D, P, 1, 2))
                    row.append(cu(B) if last else mk_utpm(ctx, algopy, B))
                    rrow.append(B)
                blocks.append(row)
                refs.append(rrow)
            try:
                Cc = plain(UTPM.combine_blocks(blocks).data)
            except Exception as e:
                ctx.fact(False, 'combine_blocks of a %dx%d grid raised %s: %s' % (R, Cn, type(e).__name__, str(e)[:80]))
                continue
            ctx.fact(Cc.shape == (D, P, R, 2 * Cn), 'combined shape %s' % (Cc.shape,))
            for r in range(R):
                for c in range(Cn):
                    ctx.eq(Cc[:, :, r:r + 1, 2 * c:2 * c + 2], refs[r][c], 'block (%d,%d) of a %dx%d grid' % (r, c, R, Cn))
    elif what == 'combine_blocks':
        b = [[_cvars(ctx, 'b00', (D, P, 1, 1)), _cvars(ctx, 'b01', (D, P, 1, 2))],
             [_cvars(ctx, 'b10', (D, P, 1, 1)), _cvars(ctx, 'b11', (D, P, 1, 2))]]
        C = plain(UTPM.combine_blocks([[cu(x) for x in row] for row in b]).data)
        ctx.eq(C[:, :, :1, :1], b[0][0], 'block00 complex')
        ctx.eq(C[:, :, :1, 1:], b[0][1], 'block01 complex')
        ctx.eq(C[:, :, 1:, :1], b[1][0], 'block10 complex')
        ctx.eq(C[:, :, 1:, 1:], b[1][1], 'block11 complex')
    else:
        raise KeyError(what)


def h_misc_containers(ctx, D, P):
    """nested lists through ndarray2utpm; blocks of different degree in combine_blocks"""
    algopy = symx.load_algopy()
    from algopy import utils
    UTPM = algopy.UTPM
    els = [[_vars(ctx, 'n%d%d' % (i, j), (D, P)) for j in range(3)] for i in range(2)]
    nested = [[mk_utpm(ctx, algopy, els[i][j]) for j in range(3)] for i in range(2)]
    try:
        z = utils.ndarray2utpm(nested)
        Z = plain(z.data)
        ctx.fact(Z.shape == (D, P, 2, 3), 'ndarray2utpm(nested list) shape %s' % (Z.shape,))
        if Z.shape == (D, P, 2, 3):
            for i in range(2):
                for j in range(3):
                    ctx.eq(Z[:, :, i, j], els[i][j], 'ndarray2utpm[%d][%d]' % (i, j))
    except Exception as e:
        ctx.fact(False, 'ndarray2utpm(nested list) raised %s: %s' % (type(e).__name__, str(e)[:80]))
    # an object ARRAY (not a list) whose entries are vector-valued polynomials
    vec = [_vars(ctx, 'ov%d' % i, (D, P, 3)) for i in range(2)]
    oa = np.empty(2, dtype=object)
    oa[0], oa[1] = mk_utpm(ctx, algopy, vec[0]), mk_utpm(ctx, algopy, vec[1])
    try:
        Zo = plain(utils.ndarray2utpm(oa).data)
        ctx.fact(Zo.shape == (D, P, 2, 3), 'ndarray2utpm(object array of vector polynomials) shape %s' % (Zo.shape,))
        if Zo.shape == (D, P, 2, 3):
            for i in range(2):
                ctx.eq(Zo[:, :, i], vec[i], 'ndarray2utpm(object array)[%d]' % i)
    except Exception as e:
        ctx.fact(False, 'ndarray2utpm(object array of vector polynomials) raised %s: %s' % (type(e).__name__, str(e)[:80]))
    # containers mixing polynomials and plain numbers: a number is the constant polynomial
    u0, u1 = _vars(ctx, 'mu0', (D, P)), _vars(ctx, 'mu1', (D, P))
    c0, c1 = ctx.var('mc0'), ctx.var('mc1')
    for shape in ((4,), (2, 2)):
        X = np.empty(4, dtype=object)
        X[0], X[1], X[2], X[3] = mk_utpm(ctx, algopy, u0), c0, mk_utpm(ctx, algopy, u1), c1
        X = X.reshape(shape)
        try:
            Z = plain(UTPM.as_utpm(X).data)
        except Exception as e:
            ctx.fact(False, 'as_utpm(container of polynomials and numbers) raised %s: %s' % (type(e).__name__, str(e)[:80]))
            continue
        ctx.fact(Z.shape == (D, P) + shape, 'as_utpm(mixed container %s) shape %s' % (shape, Z.shape))
        if Z.shape != (D, P) + shape:
            continue
        Zr = Z.reshape((D, P, 4))
        ctx.eq(Zr[:, :, 0], u0, 'as_utpm mixed %s: polynomial entry 0' % (shape,))
        ctx.eq(Zr[:, :, 2], u1, 'as_utpm mixed %s: polynomial entry 2' % (shape,))
        for k, c in ((1, c0), (3, c1)):
            for p in range(P):
                ctx.eq(Zr[0, p, k], c, 'as_utpm mixed %s: number entry %d, coefficient 0, direction %d' % (shape, k, p))
                for d in range(1, D):
                    ctx.eq(Zr[d, p, k], 0 * c, 'as_utpm mixed %s: number entry %d, coefficient %d is zero, direction %d' % (shape, k, d, p))
    # a constant (degree-zero) block next to blocks of degree D - 1: zero higher coefficients
    if D > 1:
        b00 = _vars(ctx, 'b00', (D, P, 1, 1))
        c01 = _vars(ctx, 'c01', (1, 1, 1, 2))
        b10 = _vars(ctx, 'b10', (D, P, 1, 1))
        b11 = _vars(ctx, 'b11', (D, P, 1, 2))
        C = plain(UTPM.combine_blocks([[mk_utpm(ctx, algopy, b00), mk_utpm(ctx, algopy, c01)],
                                       [mk_utpm(ctx, algopy, b10), mk_utpm(ctx, algopy, b11)]]).data)
        for p in range(P):
            ctx.eq(C[0, p, :1, 1:], c01[0, 0], 'constant block, coefficient 0, direction %d' % p)
            for d in range(1, D):
                ctx.eq(C[d, p, :1, 1:], np.zeros((1, 2)), 'constant block, coefficient %d is zero, direction %d' % (d, p))


def h_seed_inttypes(ctx, dt):
    """seed points of a non-default integer dtype (int32, int16, uint8: index arithmetic, image
    data) with real direction vectors: base point and directions are kept exactly.  Concrete
    data: decided on the float build."""
    algopy = symx.load_algopy()
    UTPM = algopy.UTPM
    if ctx.mode == 'sym':
        ctx.fact(True, 'concrete integer-typed data: decided on the float build')
        ctx.eq(S.const(0), S.const(0), 'seed kept')
        return
    x = np.array([1, 2, 3], dtype=getattr(np, dt))
    v = np.array([0.5, -1.25, 2.75])
    u = UTPM.init_jac_vec(x, v)
    ctx.eq(plain(u.data)[0, 0], x.astype(float), 'init_jac_vec base point (%s)' % dt)
    ctx.eq(plain(u.data)[1, 0], v, 'init_jac_vec direction (%s)' % dt)
    ctx.eq(np.asarray(UTPM.extract_jac_vec(u * u)), 2 * x.astype(float) * v, 'J v of x*x (%s)' % dt)
    h = UTPM.init_hess_vec(x, v)
    ctx.eq(plain(h.data)[0, 0], x.astype(float), 'init_hess_vec base point (%s)' % dt)
    uj = UTPM.init_jacobian(x)
    J = np.asarray(UTPM.extract_jacobian(-(uj * uj * uj)))
    ctx.eq(J, np.diag(-3.0 * x.astype(float) ** 2), 'Jacobian of -x**3 (%s)' % dt)
    uh = UTPM.init_hessian(x)
    H = np.asarray(UTPM.extract_hessian(3, -algopy.sum(uh * uh * uh)))
    ctx.eq(H, np.diag(-6.0 * x.astype(float)), 'Hessian of -sum(x**3) (%s)' % dt)


def h_shift(ctx, D, P, s):
    algopy = symx.load_algopy()
    X = _vars(ctx, 'x', (D, P, 2))
    x = mk_utpm(ctx, algopy, X)
    y = x.shift(s)
    Y = plain(y.data)
    for d in range(D):
        src = d - s
        ctx.eq(Y[d], X[src] if 0 <= src < D else np.zeros((P, 2)), 'shift(%d)[%d]' % (s, d))
    back = plain(y.shift(-s).data)
    for d in range(D):
        kept = 0 <= d + s < D
        ctx.eq(back[d], X[d] if kept else np.zeros((P, 2)), 'shift(%d).shift(%d)[%d]' % (s, -s, d))
    ctx.eq(plain(x.data), X, 'shift leaves its operand alone')
    # result buffer passed as out= that already holds other values / is the operand itself
    W = _vars(ctx, 'w', (D, P, 2))
    buf = mk_utpm(ctx, algopy, W)
    r = x.shift(s, out=buf)
    ctx.fact(r is buf, 'shift returns its out= buffer')
    ctx.eq(plain(buf.data), Y, 'shift(%d, out=<used buffer>) == shift(%d)' % (s, s))
    x2 = mk_utpm(ctx, algopy, X)
    x2.shift(s, out=x2)
    ctx.eq(plain(x2.data), Y, 'x.shift(%d, out=x) == x.shift(%d)' % (s, s))
    # coeff_op: extract coefficient slices into a new polynomial
    if D >= 2:
        z = x.coeff_op((slice(1, None), slice(None), slice(0, 1)), (D - 1, P))
        ctx.eq(plain(z.data), X[1:, :, 0], 'coeff_op')


def _leibniz(A):
    n = A.shape[0]
    tot = 0
    for perm in itertools.permutations(range(n)):
        sgn = 1
        for i in range(n):
            for j in range(i + 1, n):
                if perm[i] > perm[j]:
                    sgn = -sgn
        t = sgn
        for i in range(n):
            t = t * A[i, perm[i]]
        tot = tot + t
    return tot


def h_pivots(ctx, n):
    """every pivot sequence producible by lu_factor for a symbolic n x n matrix"""
    algopy = symx.load_algopy()
    from algopy import utils
    import scipy.linalg
    A = _vars(ctx, 'A', (n, n))
    if ctx.mode == 'sym':
        lu, piv = stubs.lu_factor_model(A)
        lu = plain(lu)
    else:
        Af = np.array(A.tolist(), dtype=float)
        lu, piv = scipy.linalg.lu_factor(Af)
        A = Af
    W = plain(utils.piv2mat(piv))
    sign = utils.piv2det(piv)
    L = np.tril(lu, -1) + np.eye(n)
    U = np.triu(lu)
    ctx.eq(np.dot(np.dot(W, L), U), A, 'piv2mat(piv) L U == A   (piv=%s)' % list(map(int, piv)))
    du = 1
    for i in range(n):
        du = du * U[i, i]
    ctx.eq(sign * du, _leibniz(A), 'piv2det(piv) prod(diag U) == det A   (piv=%s)' % list(map(int, piv)))
    ctx.note('pivot vector %s' % list(map(int, piv)))
    # P is a permutation matrix, sign = det P
    Wf = np.array([[float(S.lift(e).cval()) if ctx.mode == 'sym' else float(e) for e in row] for row in W])
    ctx.fact(abs(np.linalg.det(Wf) - float(sign)) < 1e-12 and np.allclose(Wf.sum(0), 1) and np.allclose(Wf.sum(1), 1),
             'piv2mat is a permutation matrix with determinant piv2det')


def h_pivots_utpm(ctx, n, P):
    """UTPM.lu2 + UTPM.piv2mat + UTPM.piv2det with one pivot vector per direction"""
    algopy = symx.load_algopy()
    X = _vars(ctx, 'A', (2, P, n, n))
    A = mk_utpm(ctx, algopy, X)
    PIV, L, U = algopy.UTPM.lu2(A)
    W = plain(algopy.UTPM.piv2mat(PIV).data)
    sg = plain(algopy.UTPM.piv2det(PIV).data)
    Ld, Ud = plain(L.data), plain(U.data)
    for p in range(P):
        ctx.eq(np.dot(np.dot(W[0, p], Ld[0, p]), Ud[0, p]), X[0, p], 'piv2mat(PIV)[dir %d] L0 U0 == A0' % p)
        du = 1
        for i in range(n):
            du = du * Ud[0, p, i, i]
        ctx.eq(sg[0, p] * du, _leibniz(X[0, p]), 'piv2det(PIV)[dir %d] prod(diag U0) == det A0' % p)
        ctx.eq(W[1, p], np.zeros((n, n)), 'permutation is constant')


def h_container_order(ctx, fn, D, P):
    """containers whose FIRST entry is not representative: a plain number in front of a polynomial,
    a real polynomial in front of a complex one -- the result does not depend on the order of
    the entries (type, degree and directions are those of the polynomial entries together)"""
    algopy = symx.load_algopy()
    from algopy import utils, UTPM
    conv = UTPM.as_utpm if fn == 'as_utpm' else utils.ndarray2utpm
    u = _vars(ctx, 'u', (D, P))
    c = ctx.var('c')
    for label, cont, pos_u, pos_c in (('[number, polynomial]', [c, mk_utpm(ctx, algopy, u)], 1, 0), ('[polynomial, number]', [mk_utpm(ctx, algopy, u), c], 0, 1)):
        try:
            Z = plain(conv(cont).data)
        except Exception as e:
            ctx.fact(False, '%s(%s) raised %s: %s' % (fn, label, type(e).__name__, str(e)[:80]))
            continue
        ctx.fact(Z.shape == (D, P, 2), '%s(%s) shape %s' % (fn, label, Z.shape))
        if Z.shape != (D, P, 2):
            continue
        ctx.eq(Z[:, :, pos_u], u, '%s(%s): polynomial entry' % (fn, label))
        for p in range(P):
            ctx.eq(Z[0, p, pos_c], c, '%s(%s): number entry, direction %d' % (fn, label, p))
            for d in range(1, D):
                ctx.eq(Z[d, p, pos_c], 0 * c, '%s(%s): number entry, coefficient %d' % (fn, label, d))
    r0 = _vars(ctx, 'r0', (D, P))
    z1 = _cvars(ctx, 'z1', (D, P))
    cz = mk_utpm(ctx, algopy, z1) if ctx.mode == 'sym' else algopy.UTPM(np.array(z1.tolist(), dtype=complex).reshape(z1.shape))
    for label, cont, pr, pz in (('[real, complex]', [mk_utpm(ctx, algopy, r0), cz], 0, 1), ('[complex, real]', [cz, mk_utpm(ctx, algopy, r0)], 1, 0)):
        try:
            Z = plain(conv(cont).data)
        except Exception as e:
            ctx.fact(False, '%s(%s) raised %s: %s' % (fn, label, type(e).__name__, str(e)[:80]))
            continue
        ctx.eq(Z[:, :, pr], r0, '%s(%s): real entry' % (fn, label))
        ctx.eq(Z[:, :, pz], z1, '%s(%s): complex entry keeps its imaginary part' % (fn, label))


def h_symvec_plain(ctx):
    """symvec / vecsym on plain arrays: an integer-typed unsymmetric matrix is symmetrised with its
    exact means (the docstring's own example), vecsym rejects a vector whose length is no
    triangular number (nothing is dropped silently).  Concrete numbers: decided on the float build."""
    algopy = symx.load_algopy()
    from algopy import utils
    if ctx.mode == 'sym':
        ctx.fact(True, 'concrete integer-typed arrays: decided on the float build')
        ctx.eq(S.const(0), S.const(0), 'symvec')
        return
    A = np.array([[1, 2], [3, 4]])
    for label, f in (('utils.symvec', utils.symvec), ('algopy.symvec', algopy.symvec)):
        ctx.eq(np.asarray(f(A), dtype=float), np.array([1.0, 2.5, 4.0]), '%s(integer-typed [[1,2],[3,4]]) == [1, 2.5, 4]' % label)
        ctx.eq(np.asarray(f(A, 'L'), dtype=float), np.array([1.0, 3.0, 4.0]), '%s(.., "L")' % label)
        ctx.eq(np.asarray(f(A, 'U'), dtype=float), np.array([1.0, 2.0, 4.0]), '%s(.., "U")' % label)
    B = np.array([[2, 1, 4], [3, 6, 5], [1, 2, 7]])
    ctx.eq(np.asarray(utils.vecsym(utils.symvec(B)), dtype=float), (B + B.T) / 2.0, 'vecsym(symvec(B)) == (B + B.T)/2 for an integer-typed B')
    for n in (2, 4, 5):
        try:
            r = utils.vecsym(np.arange(1.0, n + 1.0))
            ctx.fact(False, 'vecsym of a vector of length %d is accepted (result shape %s): entries are dropped' % (n, np.shape(r)))
        except ValueError:
            ctx.fact(True, 'rejected')
    ctx.eq(np.asarray(utils.vecsym(np.array([1.0, 2.0, 3.0]))), np.array([[1.0, 2.0], [2.0, 3.0]]), 'vecsym([1,2,3])')


def h_as_utpm_views(ctx, D, P):
    """containers that are transposed / Fortran-ordered object arrays"""
    algopy = symx.load_algopy()
    UTPM = algopy.UTPM
    els = {}
    objs = np.empty((2, 3), dtype=object)
    for i in range(2):
        for j in range(3):
            els[i, j] = _vars(ctx, 'e%d%d' % (i, j), (D, P))
            objs[i, j] = mk_utpm(ctx, algopy, els[i, j])
    for name, cont, get in [('transposed view', objs.T, lambda i, j: els[j, i]),
                            ('fortran order', np.asfortranarray(objs), lambda i, j: els[i, j]),
                            ('reversed view', objs[::-1, ::-1], lambda i, j: els[1 - i, 2 - j])]:
        y = UTPM.as_utpm(cont)
        Y = plain(y.data)
        ctx.fact(Y.shape == (D, P) + cont.shape, 'as_utpm(%s) shape %s' % (name, Y.shape))
        for i in range(cont.shape[0]):
            for j in range(cont.shape[1]):
                ctx.eq(Y[:, :, i, j], get(i, j), 'as_utpm(%s)[%d,%d]' % (name, i, j))


def h_pivot_enum(ctx, n):
    """all n! pivot vectors (piv[i] in i..n-1), independent of any matrix"""
    algopy = symx.load_algopy()
    from algopy import utils
    for piv in itertools.product(*[range(i, n) for i in range(n)]):
        rows = list(range(n))
        sgn = 1
        for i, p in enumerate(piv):
            if p != i:
                rows[i], rows[p] = rows[p], rows[i]
                sgn = -sgn
        ref = np.zeros((n, n))
        for i in range(n):
            ref[rows[i], i] = 1
        W = plain(utils.piv2mat(np.array(piv)))
        Wf = np.array([[float(S.lift(e).cval()) if isinstance(S.lift(e), S.Sym) else float(e) for e in row] for row in W])
        ctx.fact(np.array_equal(Wf, ref), 'piv2mat(%s)' % (piv,))
        ctx.fact(int(utils.piv2det(np.array(piv))) == sgn, 'piv2det(%s)' % (piv,))


def units(tier, seed):
    out = []

    def add(name, func, opts=None, **kw):
        o = {'property': PROP}
        o.update(opts or {})
        out.append(Unit('C17/' + name, 'symx.props.c17', func, kw, o))

    for D, P, shape in ([(3, 2, (2,)), (2, 1, (2, 2)), (3, 2, ())] if tier == 'quick' else
                        [(3, 2, (2,)), (2, 1, (2, 2)), (3, 2, ()), (4, 3, (2, 1, 2)), (1, 2, (2,)), (6, 4, (3,)), (2, 3, (2, 2, 2)), (5, 1, (1, 3))]):
        add('dirs/D%d,P%d,%s' % (D, P, shape), 'h_dirs', D=D, P=P, shape=shape)
    add('dirs/integer base point/D3,P2', 'h_dirs_intbase', D=3, P=2)
    for shape in [(3,), (2, 3), (3, 2), (2, 2), (2, 3, 2), ()] + ([(4,), (1, 3), (3, 1, 2), (1,), (2, 2, 2, 2)] if tier != 'quick' else []):
        add('seed round trip/%s' % (shape,), 'h_seed_roundtrip', shape=shape)
    for lay in (None, 'FULL_F', 'PVIEW'):
        add('coeff_op regrouping coefficients/D3,P2/%s' % (lay or 'C order'), 'h_coeff_op', opts=({'layout': lay} if lay else None), D=3, P=2)
    for shape in [(2,), (2, 2)]:
        add('seed round trip, complex point and direction/%s' % (shape,), 'h_seed_roundtrip_complex', shape=shape)
    for n in ((2, 3) if tier == 'quick' else (1, 2, 3, 4, 5)):
        for uplo in ('F', 'L', 'U'):
            add('symvec/ndarray/n%d,%s' % (n, uplo), 'h_symvec', n=n, uplo=uplo, kind='ndarray')
            add('symvec/utpm/n%d,%s' % (n, uplo), 'h_symvec', n=n, uplo=uplo, kind='utpm', D=2, P=2)
    add('containers/D2,P2', 'h_containers', D=2, P=2)
    add('containers/nested lists, blocks of different degree/D3,P2', 'h_misc_containers', D=3, P=2)
    for what in ('vecsym', 'base_and_dirs', 'as_utpm', 'as_utpm, real entries first', 'FtoJT, JTtoF', 'combine_blocks', 'combine_blocks, wide and tall grids'):
        add('complex polynomials/%s/D2,P2' % what, 'h_complex', what=what, D=2, P=2)
    add('containers/combine_blocks with a P=1 block/D2,P3', 'h_combine_mixed', D=2, P=3)
    add('symvec, vecsym on plain integer-typed arrays and vectors of the wrong length', 'h_symvec_plain')
    for fn in ('as_utpm', 'ndarray2utpm'):
        add('containers/%s does not depend on the order of its entries/D2,P2' % fn, 'h_container_order', fn=fn, D=2, P=2)
    add('dirs/integer-typed directions, non-integer base point/D3,P2', 'h_dirs_intV', D=3, P=2)
    for dt in ('int32', 'int16', 'uint8', 'int64'):
        add('seeds/base point of dtype %s' % dt, 'h_seed_inttypes', dt=dt)
    add('containers/permuted object arrays/D2,P2', 'h_as_utpm_views', D=2, P=2)
    add('pivots/UTPM.piv2mat+piv2det/n2,P2', 'h_pivots_utpm', opts={'path_budget': 200}, n=2, P=2)
    add('pivots/UTPM.piv2mat+piv2det/n3,P2', 'h_pivots_utpm', opts={'path_budget': 400, 'validate_paths': 6}, n=3, P=2)
    for s in (1, 2, -1, 0, -3):
        add('shift(%d)/D4,P2' % s, 'h_shift', D=4, P=2, s=s)
    if tier != 'quick':
        for s in (3, 5, 6, -2, -5, -7):
            add('shift(%d)/D6,P3' % s, 'h_shift', D=6, P=3, s=s)
    for n in ((2, 3) if tier == 'quick' else (2, 3, 4)):
        add('pivots/lu-model/n%d' % n, 'h_pivots', opts={'path_budget': 200, 'validate_paths': 30}, n=n)
    for n in ((2, 3, 4) if tier == 'quick' else (2, 3, 4, 5, 6)):
        add('pivots/enumerated/n%d' % n, 'h_pivot_enum', opts={'validate': False}, n=n)
    return out
