"""C12  Low-order coefficients do not depend on the truncation degree.

Every catalogued operation at degree D and at every D' < D on the truncated
symbolic input: the first D' output coefficients are proved equal; coefficient
d is additionally shown (term support) to mention no input symbol of order > d."""
import re

import numpy as np

import symx
from .. import sym as S
from .. import ops as O
from ..runner import Unit

PROP = 'C12'
EXPLANATION = "C12: f(x[:D']).data == f(x).data[:D'] for all D' < D, per operation."
_ORD = re.compile(r'^a(\d+)\[(\d+), (\d+)')


def h_op(ctx, opname, D, P):
    algopy = symx.load_algopy()
    op = O.by_name()[opname]
    raw = [O.make_input(ctx, a, 'a%d' % k, D, P) for k, a in enumerate(op.args)]
    if 'neq' in op.tags:
        for idx in np.ndindex(*raw[0][0].shape):
            ctx.assume(raw[0][0][idx] != raw[1][0][idx])
    if 'distinct' in op.tags:
        z = raw[0][0]
        for p_ in range(z.shape[0]):
            for i in range(z.shape[1]):
                for j in range(i):
                    ctx.assume(z[p_, i] != z[p_, j])
    full = O.outputs(op.fn(algopy, *[O.wrap(ctx, algopy, a, r) for a, r in zip(op.args, raw)]))
    utpm_args = set(k for k, a in enumerate(op.args) if a.kind == 'utpm')
    if ctx.mode == 'sym':
        for k, f in enumerate(full):
            for d in range(f.shape[0]):
                sup = O.support(O.flat_syms(f[d]))
                late = sorted(n for n in sup if _ORD.match(n) and int(_ORD.match(n).group(1)) in utpm_args
                              and int(_ORD.match(n).group(2)) > d)
                ctx.fact(not late, 'coefficient %d of out%d depends on higher-order input: %s' % (d, k, late[:3]))
    for Dp in range(1, D):
        trunc = []
        for a, r in zip(op.args, raw):
            trunc.append(O.wrap(ctx, algopy, a, r[:Dp] if a.kind == 'utpm' else r))
        low = O.outputs(op.fn(algopy, *trunc))
        for k, (f, o) in enumerate(zip(full, low)):
            ctx.fact(o.shape[0] == Dp and f.shape[1:] == o.shape[1:], "out%d shape at D'=%d: %s vs %s" % (k, Dp, o.shape, f.shape))
            ctx.eq(f[:Dp], o, "out%d[:%d]" % (k, Dp))


def h_compare(ctx, D, P):
    """comparisons (hence data-dependent branches) do not depend on the truncation degree"""
    import operator
    algopy = symx.load_algopy()
    X = O.make_input(ctx, O.Arg('utpm', (2,)), 'x', D, P)
    Y = O.make_input(ctx, O.Arg('utpm', (2,)), 'y', D, P)
    c = ctx.var('c')
    for name, f in [('<', operator.lt), ('<=', operator.le), ('>', operator.gt), ('>=', operator.ge), ('==', operator.eq)]:
        full_s = bool(f(O.wrap(ctx, algopy, O.Arg('utpm', (2,)), X), c))
        full_u = bool(f(O.wrap(ctx, algopy, O.Arg('utpm', (2,)), X), O.wrap(ctx, algopy, O.Arg('utpm', (2,)), Y)))
        for Dp in range(1, D):
            ts = bool(f(O.wrap(ctx, algopy, O.Arg('utpm', (2,)), X[:Dp]), c))
            tu = bool(f(O.wrap(ctx, algopy, O.Arg('utpm', (2,)), X[:Dp]), O.wrap(ctx, algopy, O.Arg('utpm', (2,)), Y[:Dp])))
            ctx.fact(ts == full_s, "x %s c at D'=%d (%s) == at D=%d (%s)" % (name, Dp, ts, D, full_s))
            ctx.fact(tu == full_u, "x %s y at D'=%d (%s) == at D=%d (%s)" % (name, Dp, tu, D, full_u))


def h_eigh_scales(ctx):
    """eigh with a small (but far above the 1e-8 threshold) eigenvalue gap and a huge
    second-order coefficient: low-order results must not depend on the presence of A_2"""
    from fractions import Fraction
    from . import c08
    from .. import stubs
    from .common import mk_utpm, plain
    algopy = symx.load_algopy()
    n, D = 2, 3
    zero = S.const(0) if ctx.mode == 'sym' else 0.0
    Q0 = c08.rot2(ctx, 'q')
    lam = [ctx.var('l0'), ctx.var('l1')]
    ctx.assume(lam[1] - lam[0] > Fraction(1, 1000))
    ctx.assume(lam[1] - lam[0] < Fraction(1, 100))
    ctx.assume(lam[0] > -1)
    ctx.assume(lam[1] < 1)
    Lm = np.empty((n, n), dtype=object)
    Lm[0, 0], Lm[0, 1], Lm[1, 0], Lm[1, 1] = lam[0], zero, zero, lam[1]
    A0 = np.dot(np.dot(Q0, Lm), Q0.T)
    if ctx.mode == 'sym':
        stubs.register('eigh', A0, (np.array(lam, dtype=object), Q0))
    X = np.empty((D, 1, n, n), dtype=object)
    X[0, 0] = A0
    a, b, c = ctx.var('a1'), ctx.var('b1'), ctx.var('c1')
    for v in (a, b, c):
        ctx.assume(v > -1)
        ctx.assume(v < 1)
    X[1, 0, 0, 0], X[1, 0, 0, 1], X[1, 0, 1, 0], X[1, 0, 1, 1] = a, b, b, c
    big = 1e7 if ctx.mode == 'float' else S.const(10**7)
    X[2, 0, 0, 0], X[2, 0, 0, 1], X[2, 0, 1, 0], X[2, 0, 1, 1] = big, big * 2, big * 2, big * (-1)
    lf, Qf = algopy.eigh(mk_utpm(ctx, algopy, X))
    lf, Qf = plain(lf.data), plain(Qf.data)
    for Dp in (1, 2):
        lp, Qp = algopy.eigh(mk_utpm(ctx, algopy, X[:Dp]))
        ctx.eq(lf[:Dp], plain(lp.data), "eigenvalues[:%d] do not depend on A_2" % Dp)
        # sign-invariant comparison of the eigenvectors
        Qp = plain(Qp.data)
        for d in range(Dp):
            ctx.eq(sum(np.outer(Qf[c][0][:, 0], Qf[d - c][0][:, 0]) for c in range(d + 1)),
                   sum(np.outer(Qp[c][0][:, 0], Qp[d - c][0][:, 0]) for c in range(d + 1)), 'projector on eigenvector 0, order %d, D\'=%d' % (d, Dp))


def h_shift(ctx, D, P, s):
    """multiplication by t**s (s > 0) is causal: coefficient d of x.shift(s) computed with D
    coefficients equals the one computed from the first D' coefficients, for every D' < D;
    the same inside a small program (x + (x*x).shift(s))"""
    algopy = symx.load_algopy()
    from .common import mk_utpm, plain
    X = np.empty((D, P, 2), dtype=object)
    for idx in np.ndindex(*X.shape):
        X[idx] = ctx.var('x%s' % list(idx))
    prog = lambda x: x + (x * x).shift(s)
    full, fullp = plain(mk_utpm(ctx, algopy, X).shift(s).data), plain(prog(mk_utpm(ctx, algopy, X)).data)
    for Dp in range(1, D):
        part, partp = plain(mk_utpm(ctx, algopy, X[:Dp]).shift(s).data), plain(prog(mk_utpm(ctx, algopy, X[:Dp])).data)
        ctx.eq(part, full[:Dp], "shift(%d): first %d coefficients, D'=%d vs D=%d" % (s, Dp, Dp, D))
        ctx.eq(partp, fullp[:Dp], "x + (x*x).shift(%d): first %d coefficients, D'=%d vs D=%d" % (s, Dp, Dp, D))


def h_floordiv_mixed(ctx, D, where='entry'):
    """x // y where one entry (or one direction) needs the 0/0 treatment and the other is regular:
    the coefficients of the REGULAR entry / direction do not depend on the truncation degree and
    equal those of x / y"""
    algopy = symx.load_algopy()
    from .common import mk_utpm, plain
    shape = (D, 1, 2) if where == 'entry' else (D, 2)
    X = np.empty(shape, dtype=object)
    Y = np.empty(shape, dtype=object)
    for idx in np.ndindex(*shape):
        X[idx] = ctx.var('x%s' % list(idx))
        Y[idx] = ctx.var('y%s' % list(idx))
    zero = S.const(0) if ctx.mode == 'sym' else 0.0
    sing = (0, 0) if where == 'entry' else (0,)
    reg = (0, 1) if where == 'entry' else (1,)
    X[(0,) + sing] = zero
    Y[(0,) + sing] = zero
    for idx in ((1,) + sing, (0,) + reg):
        v = Y[idx]
        ctx.assume(v > -1)
        Y[idx] = v + 2           # leading coefficients well above the 1e-8 threshold
    full = plain((mk_utpm(ctx, algopy, X) // mk_utpm(ctx, algopy, Y)).data)
    quot = plain((mk_utpm(ctx, algopy, X[(slice(None),) + reg][:, None]) / mk_utpm(ctx, algopy, Y[(slice(None),) + reg][:, None])).data)
    ctx.eq(full[(slice(None),) + reg], quot[:, 0], 'regular %s of x // y == x / y' % where)
    for Dp in range(2, D):
        part = plain((mk_utpm(ctx, algopy, X[:Dp]) // mk_utpm(ctx, algopy, Y[:Dp])).data)
        ctx.eq(part[(slice(None),) + reg], full[(slice(Dp),) + reg], "regular %s of x // y: D'=%d vs D=%d" % (where, Dp, D))


def h_tie(ctx, fname, D):
    """maximum / minimum with exactly tied zeroth coefficients: coefficients of order < D' do not
    depend on D (whatever rule selects the branch, it must not look at coefficients >= D')"""
    from .common import mk_utpm, plain
    algopy = symx.load_algopy()
    X = O.make_input(ctx, O.Arg('utpm', (1,)), 'x', D, 1)
    Y = O.make_input(ctx, O.Arg('utpm', (1,)), 'y', D, 1)
    Y[0, 0, 0] = X[0, 0, 0]
    f = getattr(algopy, fname)
    full = plain(f(mk_utpm(ctx, algopy, X), mk_utpm(ctx, algopy, Y)).data)
    for Dp in range(1, D):
        part = plain(f(mk_utpm(ctx, algopy, X[:Dp]), mk_utpm(ctx, algopy, Y[:Dp])).data)
        ctx.eq(full[:Dp], part, '%s with tied values: coefficients < %d computed with D=%d' % (fname, Dp, D))


def h_reverse(ctx, pname, D, P, zero_first=False):
    """reverse sweep: the adjoint coefficients of order < D' computed with D coefficients equal
    those computed from inputs and seeds truncated to D'"""
    from .c03 import Namespace, make_consts, make_curve, get_prog, record, pullback_guard
    from .common import plain
    algopy = symx.load_algopy()
    prog = get_prog(pname)
    arg, X = make_curve(ctx, prog, 'x', D, P)
    if zero_first:
        for p in range(P):
            X[(0, p) + (0,) * len(prog.shape)] = S.const(0) if ctx.mode == 'sym' else 0.0
    A = Namespace(algopy, make_consts(ctx, prog))

    def sweep(Xc, YBc):
        cg, fx, fy = record(ctx, algopy, A, prog, O.wrap(ctx, algopy, arg, Xc))
        Yc = plain(fy.x.data)
        if YBc is None:
            YBc = np.empty(Yc.shape, dtype=object)
            for idx in np.ndindex(*Yc.shape):
                YBc[idx] = ctx.var('ybar%s' % list(idx))
        ok = pullback_guard(ctx, algopy, cg, [O.wrap(ctx, algopy, O.Arg('utpm', Yc.shape[2:]), YBc)])
        return (plain(fx.xbar.data).copy() if ok else None), YBc
    XB, YB = sweep(X, None)
    if XB is None:
        return
    for Dp in range(1, D):
        XBp, _ = sweep(X[:Dp], YB[:Dp])
        if XBp is None:
            return
        ctx.eq(XB[:Dp], XBp, "xbar[:%d] at D=%d == xbar at D'=%d" % (Dp, D, Dp))


def units(tier, seed):
    out = []
    for (D, P) in ([(4, 2)] if tier == 'quick' else [(8, 2), (11, 1), (5, 3)]):
        for op in O.catalogue():
            if 'c14only' in op.tags or 'c10only' in op.tags:
                continue
            out.append(Unit('C12/%s/D%d,P%d' % (op.name, D, P), 'symx.props.c12', 'h_op',
                            {'opname': op.name, 'D': D, 'P': P}, {'property': PROP, 'path_budget': 300}))
    # long polynomials (fast paths that switch on for large D)
    for opn in ['utpm mul utpm', 'utpm div utpm', 'pow3', 'square', 'exp', 'sin', 'log', 'sqrt', 'dot(vec,vec)']:
        if opn in O.by_name():
            out.append(Unit('C12/%s/D17,P1' % opn, 'symx.props.c12', 'h_op', {'opname': opn, 'D': 17, 'P': 1}, {'property': PROP, 'path_budget': 300}))
    for pn in ['x*x', 'x/(1+x*x)', 'exp', 'prod', 'dot(mat,mat)', 'buffer', 'inv', 'sin(x)*x', 'x**3', 'sqrt', 'outer', 'dot(rank3,mat)', 'dot(vec,rank3)', 'sum(axis=0)', 'tile(2,2)', 'x[[0,2]]*c']:
        out.append(Unit('C12/reverse/%s/D3,P1' % pn, 'symx.props.c12', 'h_reverse', {'pname': pn, 'D': 3, 'P': 1}, {'property': PROP, 'float_tol': 1e-6}))
        if tier != 'quick':
            out.append(Unit('C12/reverse/%s/D4,P2' % pn, 'symx.props.c12', 'h_reverse', {'pname': pn, 'D': 4, 'P': 2}, {'property': PROP, 'float_tol': 1e-6}))
    out.append(Unit('C12/reverse/prod with a zero factor/D3,P1', 'symx.props.c12', 'h_reverse', {'pname': 'prod', 'D': 3, 'P': 1, 'zero_first': True},
                    {'property': PROP, 'float_tol': 1e-6}))
    out.append(Unit('C12/eigh, small gap and huge second-order coefficient', 'symx.props.c12', 'h_eigh_scales', {},
                    {'property': PROP, 'path_budget': 200, 'float_tol': 1e-5}))
    # result buffers passed as out= and reused: stale higher-order content must not leak into the
    # low-order coefficients (harnesses of C07/C08 with an arbitrary pre-filled buffer)
    W = {'property': PROP, 'dirty_out': True, 'path_budget': 200}
    out.append(Unit('C12/out= reused workspace/solve 2x2,k1/D4,P2', 'symx.props.c07', 'h_solve', {'n': 2, 'k': 1, 'kinds': 'UU', 'D': 4, 'P': 2}, dict(W)))
    out.append(Unit('C12/out= reused workspace/qr 2x2/D3,P1', 'symx.props.c08', 'h_qr', {'M': 2, 'N': 2, 'D': 3, 'P': 1}, dict(W)))
    out.append(Unit('C12/out= reused workspace/cholesky 2x2/D3,P1', 'symx.props.c08', 'h_cholesky', {'n': 2, 'D': 3, 'P': 1}, dict(W)))
    out.append(Unit('C12/out= reused workspace/eigh 2x2/D3,P1', 'symx.props.c08', 'h_eigh', {'n': 2, 'D': 3, 'P': 1}, dict(W)))
    for where in ('entry', 'direction'):
        out.append(Unit('C12/floordiv, 0/0 in one %s only/D4' % where, 'symx.props.c12', 'h_floordiv_mixed', {'D': 4, 'where': where}, {'property': PROP}))
    for sh in (1, 2, 3):
        out.append(Unit('C12/shift(%d) (multiplication by a power of t)/D5,P2' % sh, 'symx.props.c12', 'h_shift', {'D': 5, 'P': 2, 's': sh}, {'property': PROP}))
    for fn in ('maximum', 'minimum'):
        out.append(Unit('C12/%s with tied zeroth coefficients/D4' % fn, 'symx.props.c12', 'h_tie', {'fname': fn, 'D': 4}, {'property': PROP, 'path_budget': 400}))
    out.append(Unit('C12/comparisons/D3,P1', 'symx.props.c12', 'h_compare', {'D': 3, 'P': 1}, {'property': PROP, 'path_budget': 2000, 'validate_paths': 3}))
    return out
