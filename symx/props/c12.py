"""C12  Low-order coefficients do not depend on the truncation degree.

Every catalogued operation at degree D and at every D' < D on the truncated
symbolic input: the first D' output coefficients are proved equal; coefficient
d is additionally shown (term support) to mention no input symbol of order > d."""
import re

import numpy as np

import symx
from .. import sym as S
from .. import ops as O
from ..runner import Unit

PROP = 'C12'
EXPLANATION = "C12: f(x[:D']).data == f(x).data[:D'] for all D' < D, per operation."
_ORD = re.compile(r'^a(\d+)\[(\d+), (\d+)')


def h_op(ctx, opname, D, P):
    algopy = symx.load_algopy()
    op = O.by_name()[opname]
    raw = [O.make_input(ctx, a, 'a%d' % k, D, P) for k, a in enumerate(op.args)]
    if 'neq' in op.tags:
        for idx in np.ndindex(*raw[0][0].shape):
            ctx.assume(raw[0][0][idx] != raw[1][0][idx])
    if 'distinct' in op.tags:
        z = raw[0][0]
        for p_ in range(z.shape[0]):
            for i in range(z.shape[1]):
                for j in range(i):
                    ctx.assume(z[p_, i] != z[p_, j])
    full = O.outputs(op.fn(algopy, *[O.wrap(ctx, algopy, a, r) for a, r in zip(op.args, raw)]))
    utpm_args = set(k for k, a in enumerate(op.args) if a.kind == 'utpm')
    if ctx.mode == 'sym':
        for k, f in enumerate(full):
            for d in range(f.shape[0]):
                sup = O.support(O.flat_syms(f[d]))
                late = sorted(n for n in sup if _ORD.match(n) and int(_ORD.match(n).group(1)) in utpm_args
                              and int(_ORD.match(n).group(2)) > d)
                ctx.fact(not late, 'coefficient %d of out%d depends on higher-order input: %s' % (d, k, late[:3]))
    for Dp in range(1, D):
        trunc = []
        for a, r in zip(op.args, raw):
            trunc.append(O.wrap(ctx, algopy, a, r[:Dp] if a.kind == 'utpm' else r))
        low = O.outputs(op.fn(algopy, *trunc))
        for k, (f, o) in enumerate(zip(full, low)):
            ctx.fact(o.shape[0] == Dp and f.shape[1:] == o.shape[1:], "out%d shape at D'=%d: %s vs %s" % (k, Dp, o.shape, f.shape))
            ctx.eq(f[:Dp], o, "out%d[:%d]" % (k, Dp))


def h_compare(ctx, D, P):
    """comparisons (hence data-dependent branches) do not depend on the truncation degree"""
    import operator
    algopy = symx.load_algopy()
    X = O.make_input(ctx, O.Arg('utpm', (2,)), 'x', D, P)
    Y = O.make_input(ctx, O.Arg('utpm', (2,)), 'y', D, P)
    c = ctx.var('c')
    for name, f in [('<', operator.lt), ('<=', operator.le), ('>', operator.gt), ('>=', operator.ge), ('==', operator.eq)]:
        full_s = bool(f(O.wrap(ctx, algopy, O.Arg('utpm', (2,)), X), c))
        full_u = bool(f(O.wrap(ctx, algopy, O.Arg('utpm', (2,)), X), O.wrap(ctx, algopy, O.Arg('utpm', (2,)), Y)))
        for Dp in range(1, D):
            ts = bool(f(O.wrap(ctx, algopy, O.Arg('utpm', (2,)), X[:Dp]), c))
            tu = bool(f(O.wrap(ctx, algopy, O.Arg('utpm', (2,)), X[:Dp]), O.wrap(ctx, algopy, O.Arg('utpm', (2,)), Y[:Dp])))
            ctx.fact(ts == full_s, "x %s c at D'=%d (%s) == at D=%d (%s)" % (name, Dp, ts, D, full_s))
            ctx.fact(tu == full_u, "x %s y at D'=%d (%s) == at D=%d (%s)" % (name, Dp, tu, D, full_u))


def units(tier, seed):
    out = []
    D, P = (4, 2) if tier == 'quick' else (6, 2)
    for op in O.catalogue():
        if 'c14only' in op.tags:
            continue
        out.append(Unit('C12/%s/D%d,P%d' % (op.name, D, P), 'symx.props.c12', 'h_op',
                        {'opname': op.name, 'D': D, 'P': P}, {'property': PROP, 'path_budget': 300}))
    out.append(Unit('C12/comparisons/D3,P1', 'symx.props.c12', 'h_compare', {'D': 3, 'P': 1}, {'property': PROP, 'path_budget': 2000, 'validate_paths': 3}))
    return out
