"""C12  Low-order coefficients do not depend on the truncation degree.

Every catalogued operation at degree D and at every D' < D on the truncated
symbolic input: the first D' output coefficients are proved equal; coefficient
d is additionally shown (term support) to mention no input symbol of order > d."""
import re

import numpy as np

import symx
from .. import sym as S
from .. import ops as O
from ..runner import Unit

PROP = 'C12'
EXPLANATION = "C12: f(x[:D']).data == f(x).data[:D'] for all D' < D, per operation."
_ORD = re.compile(r'^a(\d+)\[(\d+), (\d+)')


def h_op(ctx, opname, D, P):
    algopy = symx.load_algopy()
    op = O.by_name()[opname]
    raw = [O.make_input(ctx, a, 'a%d' % k, D, P) for k, a in enumerate(op.args)]
    if 'neq' in op.tags:
        for idx in np.ndindex(*raw[0][0].shape):
            ctx.assume(raw[0][0][idx] != raw[1][0][idx])
    full = O.outputs(op.fn(algopy, *[O.wrap(ctx, algopy, a, r) for a, r in zip(op.args, raw)]))
    utpm_args = set(k for k, a in enumerate(op.args) if a.kind == 'utpm')
    if ctx.mode == 'sym':
        for k, f in enumerate(full):
            for d in range(f.shape[0]):
                sup = O.support(O.flat_syms(f[d]))
                late = sorted(n for n in sup if _ORD.match(n) and int(_ORD.match(n).group(1)) in utpm_args
                              and int(_ORD.match(n).group(2)) > d)
                ctx.fact(not late, 'coefficient %d of out%d depends on higher-order input: %s' % (d, k, late[:3]))
    for Dp in range(1, D):
        trunc = []
        for a, r in zip(op.args, raw):
            trunc.append(O.wrap(ctx, algopy, a, r[:Dp] if a.kind == 'utpm' else r))
        low = O.outputs(op.fn(algopy, *trunc))
        for k, (f, o) in enumerate(zip(full, low)):
            ctx.fact(o.shape[0] == Dp and f.shape[1:] == o.shape[1:], "out%d shape at D'=%d: %s vs %s" % (k, Dp, o.shape, f.shape))
            ctx.eq(f[:Dp], o, "out%d[:%d]" % (k, Dp))


def units(tier, seed):
    out = []
    D, P = (4, 1) if tier == 'quick' else (6, 2)
    for op in O.catalogue():
        out.append(Unit('C12/%s/D%d,P%d' % (op.name, D, P), 'symx.props.c12', 'h_op',
                        {'opname': op.name, 'D': D, 'P': P}, {'property': PROP}))
    return out
