"""C03  Reverse mode agrees with forward mode at every Taylor order.

Per program: the tracer records it on a symbolic Taylor curve x(t); the reverse
sweep is run with a fully symbolic adjoint seed ybar(t); for a fully symbolic
direction v(t) the adjoint identity
    sum_{j<=k} <xbar_j, v_{k-j}> = sum_{j<=k} <ybar_j, dy_{k-j}[v]>,   k < D, every direction p
is decided, where dy[v] is the exact directional derivative of the forward
coefficient terms obtained by symbolic differentiation of the forward DAG
(diff.py; float replays use central differences of the forward evaluation)."""
import re

import numpy as np

import symx
from .. import sym as S
from .. import diff, npx, ops as O
from .. import programs as PR
from ..runner import Unit
from .common import plain

PROP = 'C03'
EXPLANATION = ('C03: programs are enumerated (catalogue + seeded random compositions); input curve, adjoint seed and '
               'direction are symbolic at every order.')


class Namespace(object):
    """the algopy namespace plus symbolic constant operands"""

    def __init__(self, algopy, consts):
        self._a = algopy
        self.c = consts
        self.cg = None          # the recording CGraph while a program is being traced

    def const(self, c):
        """a constant that is itself a traced node while recording (a parameter that is not an
        independent variable); the plain constant otherwise"""
        return self._a.Function(c) if self.cg is not None else c

    def pause(self):
        """suspend recording (no-op when the program runs untraced)"""
        if self.cg is not None:
            self.cg.trace_off()

    def resume(self):
        if self.cg is not None:
            self.cg.trace_on()

    def __getattr__(self, name):
        return getattr(self._a, name)


def make_consts(ctx, prog):
    out = {}
    for name, shp in (prog.consts or {}).items():
        A = np.empty(shp, dtype=object)
        for idx in np.ndindex(*shp):
            A[idx] = ctx.var('%s%s' % (name, list(idx)))
            if 'cnonzero' in prog.tags:
                ctx.assume(A[idx] != 0)
        out[name] = npx.sarr(A, float) if ctx.mode == 'sym' else np.array(A.tolist(), dtype=float).reshape(shp)
    return out


def factor_inputs(ctx, prog, X, name, P):
    """zeroth coefficients constructed from the factors of the factorisation the program uses
    (contract stubs, see props/c08.py)"""
    from . import c08
    from .. import stubs
    fac = [t for t in prog.tags if t.startswith('fac:')][0][4:]
    M, N = prog.shape
    for p in range(P):
        tag = '%s_p%d' % (name, p)
        if fac in ('qr', 'qr_full'):
            Qf = c08.rot2(ctx, tag) if M == 2 else c08.rot3(ctx, tag)
            if fac == 'qr_full':
                z = np.empty((M - N, N), dtype=object)
                z[...] = 0.0 if ctx.mode == 'float' else S.const(0)
                Rf = np.concatenate([c08.upper(ctx, 'R' + tag, N, N), z], axis=0)
                A0 = np.dot(Qf, Rf)
                if ctx.mode == 'sym':
                    stubs.register('qr', A0, (Qf, Rf))
            elif N >= M:
                Rsq = c08.upper(ctx, 'R' + tag, M, M)
                A1 = np.dot(Qf, Rsq)
                if ctx.mode == 'sym':
                    stubs.register('qr', A1, (Qf, Rsq))
                A0 = A1 if N == M else np.concatenate([A1, c08.V(ctx, 'W' + tag, (M, N - M))], axis=1)
            else:
                Rr = c08.upper(ctx, 'R' + tag, N, N)
                A0 = np.dot(Qf[:, :N], Rr)
                if ctx.mode == 'sym':
                    stubs.register('qr', A0, (Qf[:, :N], Rr))
        elif fac == 'cholesky':
            L0 = np.empty((M, M), dtype=object)
            for i in range(M):
                for j in range(M):
                    L0[i, j] = (0.0 if ctx.mode == 'float' else S.const(0)) if j > i else ctx.var('L%s[%d,%d]' % (tag, i, j), pos=(i == j))
            A0 = np.dot(L0, L0.T)
            if ctx.mode == 'sym':
                stubs.register('cholesky', A0, L0)
        elif fac == 'eigh':
            Q0 = c08.rot2(ctx, tag)
            lam = [ctx.var('lam%s_%d' % (tag, i)) for i in range(M)]
            for i in range(1, M):
                ctx.assume(lam[i] - lam[i - 1] > 1)
            Lm = np.empty((M, M), dtype=object)
            for i in range(M):
                for j in range(M):
                    Lm[i, j] = lam[i] if i == j else (0.0 if ctx.mode == 'float' else S.const(0))
            A0 = np.dot(np.dot(Q0, Lm), Q0.T)
            if ctx.mode == 'sym':
                stubs.register('eigh', A0, (np.array(lam, dtype=object), Q0))
        elif fac == 'eig':
            # general (non-symmetric) matrix with real distinct eigenvalues: A0 = Q0 diag(lam) Q0^-1
            # (the stub returns Q0 unnormalised; the programs' outputs do not depend on the scaling
            # or the order of the eigenvectors)
            Q0 = c08.V(ctx, 'Q' + tag, (M, M))
            det = Q0[0, 0] * Q0[1, 1] - Q0[0, 1] * Q0[1, 0]
            if ctx.mode == 'sym':
                ctx.assume(det != 0)
            else:
                ctx.assume(abs(det) > 1e-2)
            lam = [ctx.var('lam%s_%d' % (tag, i)) for i in range(M)]
            if ctx.mode == 'sym':
                ctx.assume(lam[0] != lam[1])
            else:
                ctx.assume(abs(lam[0] - lam[1]) > 1e-2)
            Lm = np.empty((M, M), dtype=object)
            for i in range(M):
                for j in range(M):
                    Lm[i, j] = lam[i] if i == j else (0.0 if ctx.mode == 'float' else S.const(0))
            Qi = npx.exact_inv(Q0) if ctx.mode == 'sym' else np.linalg.inv(np.array(Q0.tolist(), dtype=float))
            A0 = np.dot(np.dot(Q0, Lm), Qi)
            if ctx.mode == 'sym':
                stubs.register('eig', A0, (np.array(lam, dtype=object), Q0))
        elif fac == 'svd':
            # A0 = U0 S V0^T, s1 > s2 > 0 (2x2 or 2x3), see c08.svd_base
            A0 = c08.svd_base(ctx, M, N, tag, fixed=('fixedrot' in prog.tags))
            if ctx.mode == 'sym':
                stubs.ALLOW_ORTHONORMAL_QR[0] = True      # (svd calls qr_full on an orthogonal block and slices the result away)
        else:
            raise KeyError(fac)
        X[0, p] = A0
    return X


def make_curve(ctx, prog, name, D, P):
    arg = O.Arg('utpm', prog.shape, prog.dom)
    X = O.make_input(ctx, arg, name, D, P)
    if 'symmetric' in prog.tags:
        n = prog.shape[0]
        for d in range(D):
            for p in range(P):
                for i in range(n):
                    for j in range(i):
                        X[d, p, i, j] = X[d, p, j, i]
    if any(t.startswith('fac:') for t in prog.tags):
        before = set(ctx.var_order) if ctx.mode == 'sym' else None
        X = factor_inputs(ctx, prog, X, name, P)
        if ctx.mode == 'sym':
            ctx.fac_params = [n for n in ctx.var_order if n not in before]
    if 'halfangle' in prog.tags:
        # x0 = 2 atan(u): tan, sin, cos of x0 are rational in u (DESIGN 2.5(4))
        import math
        for idx in np.ndindex(*X[0].shape):
            u = ctx.var('u_%s%s' % (name, list(idx)))
            ctx.assume(u != 1)
            ctx.assume(u != -1)
            if ctx.mode == 'sym':
                x0 = X[0][idx]
                ctx.define_atom('tan', x0, 2 * u / (1 - u * u))
                ctx.define_atom('cos', x0, (1 - u * u) / (1 + u * u))
                ctx.define_atom('sin', x0, 2 * u / (1 + u * u))
                ctx.derive(x0.a[0], (lambda un: lambda env: 2 * math.atan(env[un]))(u.a[0]))
            else:
                X[0][idx] = 2 * math.atan(u)
    if 'pivot-cycle' in prog.tags:
        # partial pivoting picks row 1 first, then (of the remaining rows 0 and 2) row 2: the row order
        # (1, 2, 0) is a 3-cycle, i.e. a permutation matrix that is not its own transpose
        for p in range(P):
            a = X[0, p]
            ctx.assume(a[1, 0] * a[1, 0] > a[0, 0] * a[0, 0])
            ctx.assume(a[1, 0] * a[1, 0] > a[2, 0] * a[2, 0])
            r2 = a[2, 1] * a[1, 0] - a[2, 0] * a[1, 1]
            r0 = a[0, 1] * a[1, 0] - a[0, 0] * a[1, 1]
            ctx.assume(r2 * r2 > r0 * r0)
    if 'posdet' in prog.tags:
        for p in range(P):
            ctx.assume(X[0, p, 0, 0] * X[0, p, 1, 1] - X[0, p, 0, 1] * X[0, p, 1, 0] > 0)
    if 'clip-bound' in prog.tags:
        # elements sitting exactly ON the upper / lower bound: C03 takes forward propagation as the
        # reference there, so the reverse sweep has to use the same (closed interval) convention
        from fractions import Fraction
        for p in range(P):
            ctx.assume(X[0, p, 0] == Fraction(1, 2))
            ctx.assume(X[0, p, 1] == Fraction(-1, 2))
            ctx.assume(X[0, p, 2] != 0.5)
            ctx.assume(X[0, p, 2] != -0.5)
    elif 'clip' in prog.tags:
        for idx in np.ndindex(*X[0].shape):
            ctx.assume(X[0][idx] != 0.5)
            ctx.assume(X[0][idx] != -0.5)
    return arg, X


def get_prog(pname):
    m = re.match(r'random\(seed=(\d+),len=(\d+)\)', pname)
    if m:
        return PR.random_prog(int(m.group(1)), int(m.group(2)))
    m = re.match(r'(post|pre)-use:(.*)$', pname)
    if m:
        return PR.fanout(PR.by_name()[m.group(2)], m.group(1))
    return PR.by_name()[pname]


def record(ctx, algopy, A, prog, x):
    cg = algopy.CGraph()
    fx = algopy.Function(x)
    A.cg = cg
    try:
        fy = prog.f(A, fx)
    finally:
        A.cg = None
    cg.trace_off()
    cg.independentFunctionList = [fx]
    cg.dependentFunctionList = [fy]
    def kind(v):
        if isinstance(v, np.ndarray):
            return 'ndarray'
        if isinstance(v, (S.Sym, S.SymC, float, int, complex, np.number)):
            return 'scalar'
        return type(v).__name__
    ctx.fp('graph', [(f.func.__name__, bool(getattr(f.x, 'owndata', None))) if isinstance(f.x, algopy.UTPM)
                     else (f.func.__name__, kind(f.x)) for f in cg.functionList])
    return cg, fx, fy


def pullback_guard(ctx, algopy, cg, seeds, what='pullback'):
    """run cg.pullback; a raised exception is a violation iff a pullback exists"""
    try:
        cg.pullback(seeds)
        return True
    except Exception as e:
        msg = str(e)
        m = re.search(r"has no attribute 'pb_(\w+)'", msg)
        if m and not hasattr(algopy.UTPM, 'pb_' + m.group(1)):
            ctx.note('%s: no pullback for %s (raises as documented)' % (what, m.group(1)))
            return False
        m2 = re.search(r'tried to evaluate the pullback of (\w+)\(', msg)
        last = [l for l in msg.strip().splitlines() if l.strip()][-1][:160]
        ctx.fact(False, '%s raised for %s: %s' % (what, m2.group(1) if m2 else '?', last))
        return False


def forward_direct(ctx, algopy, A, prog, arg, X):
    return prog.f(A, O.wrap(ctx, algopy, arg, X))


def h_prog(ctx, pname, D, P, route='replay'):
    """route='replay': record at an unrelated point / degree, re-evaluate the graph on the curve,
    then sweep; route='direct': record on the curve itself and sweep immediately (the values and
    saved buffer contents of the RECORDING run are what the sweep sees)"""
    algopy = symx.load_algopy()
    prog = get_prog(pname)
    arg, X = make_curve(ctx, prog, 'x', D, P)
    A = Namespace(algopy, make_consts(ctx, prog))
    x = O.wrap(ctx, algopy, arg, X)
    if route == 'direct' or any(t.startswith('fac:') for t in prog.tags):
        cg, fx, fy = record(ctx, algopy, A, prog, x)
    else:
        # record at an unrelated point / degree, then re-evaluate the graph on the curve
        fp_save = ctx.fac_params if hasattr(ctx, 'fac_params') else None
        rarg, R = make_curve(ctx, prog, 'r', 1, 1)
        cg, fx, fy = record(ctx, algopy, A, prog, O.wrap(ctx, algopy, rarg, R))
        try:
            cg.pushforward([x])
        except Exception as e:
            last = [l for l in str(e).strip().splitlines() if l.strip()]
            ctx.fact(False, 're-evaluation of the recorded graph raised: %s' % (last[-1][:160] if last else type(e).__name__))
            return
    ctx.fact(isinstance(fy.x, algopy.UTPM), 'program output is a UTPM')
    if not isinstance(fy.x, algopy.UTPM):
        return
    Y = plain(fy.x.data).copy()
    # seed
    YB = np.empty(Y.shape, dtype=object)
    for idx in np.ndindex(*Y.shape):
        YB[idx] = ctx.var('ybar%s' % list(idx))
    ybar = O.wrap(ctx, algopy, O.Arg('utpm', Y.shape[2:]), YB)
    if not pullback_guard(ctx, algopy, cg, [ybar]):
        return
    XB = plain(fx.xbar.data).copy()
    ctx.fact(XB.shape == X.shape, 'xbar shape %s == x shape %s' % (XB.shape, X.shape))
    if XB.shape != X.shape:
        return
    # direction
    V = np.empty(X.shape, dtype=object)
    for idx in np.ndindex(*X.shape):
        V[idx] = ctx.var('v%s' % list(idx))
    if 'symmetric' in prog.tags:
        n = prog.shape[0]
        for d in range(D):
            for p in range(P):
                for i in range(n):
                    for j in range(i):
                        V[d, p, i, j] = V[d, p, j, i]
    fac = any(t.startswith('fac:') for t in prog.tags)
    pseed = {}
    if fac:
        # the zeroth coefficient is a function of the factor parameters theta: the direction of
        # order 0 is (dA0/dtheta) dtheta with a free symbolic dtheta (the parametrisation is a
        # local diffeomorphism, so this ranges over all directions)
        if ctx.mode == 'sym':
            for nm in ctx.fac_params:
                pseed[nm] = ctx.var('dt_' + nm)
            flat0 = [S.lift(e) for e in X[0].ravel()]
            V[0] = np.array(diff.d(flat0, pseed), dtype=object).reshape(X[0].shape)
        else:
            from ..engine import Ctx as _Ctx
            h0 = 1e-6

            class _Shift(dict):
                def __init__(self, base, sgn):
                    self.base, self.sgn = base, sgn

                def __contains__(self, k):
                    return k in self.base

                def __getitem__(self, k):
                    v = float(self.base[k])
                    if ('dt_' + k) in self.base:
                        v += self.sgn * h0 * float(self.base['dt_' + k])
                    return v

            def a0(sgn):
                sub = _Ctx('float', assignment=_Shift(ctx.assignment, sgn))
                Z = np.empty((1, P) + prog.shape, dtype=object)
                Z = factor_inputs(sub, prog, Z, 'x', P)
                return np.array(Z[0].tolist(), dtype=float)
            V[0] = (a0(+1) - a0(-1)) / (2 * h0)
    # directional derivative of the forward coefficients
    if ctx.mode == 'sym':
        seed = dict(pseed)
        for idx in np.ndindex(*X.shape):
            if X[idx].op == 'var':
                seed[X[idx].a[0]] = V[idx]
        if 'halfangle' in prog.tags:
            for idx in np.ndindex(*X[0].shape):
                u = ctx.vars['u_x%s' % list(idx)]
                seed[u.a[0]] = V[(0,) + idx] * (1 + u * u) / 2
        flat = [S.lift(e) for e in Y.ravel()]
        dY = np.array(diff.d(flat, seed), dtype=object).reshape(Y.shape)
    else:
        h = 1e-5
        Xf = np.array(X.tolist(), dtype=float)
        Vf = np.array(V.tolist(), dtype=float)
        yp = plain(forward_direct(ctx, algopy, A, prog, arg, Xf + h * Vf).data)
        ym = plain(forward_direct(ctx, algopy, A, prog, arg, Xf - h * Vf).data)
        dY = (yp - ym) / (2 * h)
    for p in range(P):
        for k in range(D):
            lhs = 0
            rhs = 0
            for j in range(k + 1):
                lhs = lhs + np.sum(XB[j, p] * V[k - j, p])
                rhs = rhs + np.sum(YB[j, p] * dY[k - j, p])
            ctx.eq(lhs, rhs, 'adjoint identity order %d dir %d' % (k, p))
    # a second sweep after the same forward evaluation (row-by-row Jacobian assembly) sees the
    # same forward values and returns the same adjoint
    if 'slow' not in prog.tags and pullback_guard(ctx, algopy, cg, [ybar], what='second pullback'):     # (3x3 LU: the normal form of the repeated adjoint is too large)
        ctx.eq(plain(fx.xbar.data), XB, 'second sweep with the same seed == first sweep')
        ctx.eq(plain(fy.x.data), Y, 'forward value of the output after two sweeps')


def h_pow_complex_reverse(ctx, D, P):
    """reverse sweep through (real polynomial) ** (complex scalar): completes, and the adjoint
    identity holds against forward mode (central differences of the forward propagation).  The
    symbolic layer has no complex power atom: decided on the float build at concrete points."""
    algopy = symx.load_algopy()
    if ctx.mode == 'sym':
        ctx.fact(True, 'complex scalar exponent: decided on the float build')
        ctx.eq(S.const(0), S.const(0), 'adjoint identity')
        return
    rng = np.random.RandomState(5)
    for label, f in (('imag(x**(1+1j))*x', lambda x: algopy.imag(x ** (1 + 1j)) * x), ('real(x**(0.5-2j))', lambda x: algopy.real(x ** (0.5 - 2j)))):
        X = rng.rand(D, P, 3) + 0.5
        cg = algopy.CGraph()
        fx = algopy.Function(algopy.UTPM(X.copy()))
        fy = f(fx)
        cg.trace_off()
        cg.independentFunctionList = [fx]
        cg.dependentFunctionList = [fy]
        YB = rng.randn(*fy.x.data.shape)
        try:
            cg.pullback([algopy.UTPM(YB.copy())])
        except Exception as e:
            ctx.fact(False, '%s: the reverse sweep raised %s' % (label, str(e).strip().splitlines()[-1][:100] if str(e).strip() else type(e).__name__))
            continue
        XB = fx.xbar.data
        V = rng.randn(*X.shape)
        h = 1e-4
        F = lambda e: f(algopy.UTPM(X + e * V)).data
        W = (8 * (F(h) - F(-h)) - (F(2 * h) - F(-2 * h))) / (12 * h)
        for p in range(P):
            for d in range(D):
                lhs = sum(np.sum(XB[k, p] * V[d - k, p]) for k in range(d + 1))
                rhs = sum(np.sum(YB[k, p] * W[d - k, p]) for k in range(d + 1))
                ctx.fact(abs(lhs - rhs) <= 1e-6 * (1 + abs(rhs)), '%s: adjoint identity order %d dir %d (%r vs %r)' % (label, d, p, lhs, rhs))


def h_aliased_dependents(ctx, which, D, P):
    """two dependents that share memory (z and a view of z, or z twice): the sweep returns
    zbar^T dz/dx + wbar^T dw/dx, i.e. both seeds count"""
    from .. import lib
    algopy = symx.load_algopy()
    X = np.empty((D, P, 3), dtype=object)
    ZB = np.empty((D, P, 3), dtype=object)
    for idx in np.ndindex(D, P, 3):
        X[idx] = ctx.var('x%s' % list(idx))
        ZB[idx] = ctx.var('zbar%s' % list(idx))
    wshape = {'z[0]': (), 'z[::-1]': (3,), 'z': (3,), 'z[1:]': (2,)}[which]
    WB = np.empty((D, P) + wshape, dtype=object)
    for idx in np.ndindex(*WB.shape):
        WB[idx] = ctx.var('wbar%s' % list(idx))
    cg = algopy.CGraph()
    fx = algopy.Function(O.wrap(ctx, algopy, O.Arg('utpm', (3,)), X))
    fz = fx * fx
    fw = {'z[0]': lambda: fz[0], 'z[::-1]': lambda: fz[::-1], 'z': lambda: fz, 'z[1:]': lambda: fz[1:]}[which]()
    cg.trace_off()
    cg.independentFunctionList = [fx]
    cg.dependentFunctionList = [fz, fw]
    if not pullback_guard(ctx, algopy, cg, [O.wrap(ctx, algopy, O.Arg('utpm', (3,)), ZB), O.wrap(ctx, algopy, O.Arg('utpm', wshape), WB)]):
        return
    XB = plain(fx.xbar.data)
    # total seed on z: zbar plus wbar scattered to the entries of z that w views
    tot = ZB.copy()
    for d in range(D):
        for p in range(P):
            if which == 'z[0]':
                tot[d, p, 0] = tot[d, p, 0] + WB[d, p]
            elif which == 'z[::-1]':
                tot[d, p] = tot[d, p] + WB[d, p][::-1]
            elif which == 'z':
                tot[d, p] = tot[d, p] + WB[d, p]
            else:
                tot[d, p, 1:] = tot[d, p, 1:] + WB[d, p]
    for p in range(P):
        for i in range(3):
            ref = lib.ps_mul([2 * X[d, p, i] for d in range(D)], [tot[d, p, i] for d in range(D)], D)
            for d in range(D):
                ctx.eq(XB[d, p, i], ref[d], 'xbar[%d,%d,%d] with dependents [z, %s]' % (d, p, i, which))


def bounds(tier):
    return {'D': 2 if tier == 'quick' else 3, 'P': 2, 'random_programs': 12 if tier == 'quick' else 120,
            'random_length': '<=6' if tier == 'quick' else '<=10'}


def units(tier, seed):
    out = []
    D, P = (2, 2) if tier == 'quick' else (3, 2)
    opts = {'property': PROP, 'float_tol': 2e-5, 'path_budget': 900}
    for prog in PR.catalogue():
        if 'slow' in prog.tags and tier == 'quick':
            continue
        if 'Dmax2' in prog.tags:
            # order 0 (the vector-Jacobian product) with two directions for every eig/svd program ...
            out.append(Unit('C03/%s/D1,P2' % prog.name, 'symx.props.c03', 'h_prog', {'pname': prog.name, 'D': 1, 'P': 2},
                            dict(opts, crosscheck=False)))
            # ... order 1 where the solver finishes: all outputs of svd together do not (D1only); one
            # projector at a time does in ~2 min (heavy: thorough tier)
            if 'D1only' in prog.tags or ('heavy' in prog.tags and tier == 'quick'):
                continue
        Pp = 1 if ('clip' in prog.tags or prog.name in ('absolute', 'sign') or 'slow' in prog.tags or 'Dmax2' in prog.tags) else P
        Dp = 2 if ('slow' in prog.tags or 'Dmax2' in prog.tags or 'D2only' in prog.tags) else D     # (Dmax2: UTPM.eig supports D <= 2 only; svd beyond D = 2 exceeds the time limit; D2only: the order-2 identity of complex inv/solve sits at the solver's time limit)
        out.append(Unit('C03/%s/D%d,P%d' % (prog.name, Dp, Pp), 'symx.props.c03', 'h_prog',
                        {'pname': prog.name, 'D': Dp, 'P': Pp},
                        dict(opts, unit_timeout=2400, path_budget=2000) if 'slow' in prog.tags
                        else dict(opts, crosscheck=False, unit_timeout=900) if 'fac:svd' in prog.tags     # (sqrt(2) atom: the two external solvers time out on these scripts, as in C08)
                        else dict(opts)))
    if tier == 'quick':
        for pn in ['exp', 'x*x', 'sin', 'square', 'reciprocal', 'negative', 'x*x[::-1]', 'expm1', 'logit', 'erf', 'dawsn', 'hyperu', 'polygamma1', 'sqrt', 'log', 'absolute']:
            out.append(Unit('C03/%s/D3,P1' % pn, 'symx.props.c03', 'h_prog', {'pname': pn, 'D': 3, 'P': 1}, dict(opts)))
    # sweep immediately after recording (no re-evaluation in between)
    for prog in PR.catalogue():
        if 'slow' in prog.tags or any(t.startswith('fac:') for t in prog.tags):
            continue
        if tier == 'quick' and prog.group not in ('buffer', 'index', 'reduce', 'shape', 'dot', 'comp', 'pow'):
            continue
        Pp = 1 if ('clip' in prog.tags or prog.name in ('absolute', 'sign')) else (1 if tier == 'quick' else 2)
        out.append(Unit('C03/direct:%s/D2,P%d' % (prog.name, Pp), 'symx.props.c03', 'h_prog',
                        {'pname': prog.name, 'D': 2, 'P': Pp, 'route': 'direct'}, dict(opts)))
    # fan-out: the input is used again by nodes recorded after / before the program's own nodes
    for prog in PR.catalogue():
        if 'slow' in prog.tags or prog.group in ('factor', 'fft', 'comp', 'special') or 'halfangle' in prog.tags:
            continue
        if prog.group == 'elem' and prog.name not in ('exp', 'sqrt'):
            continue
        Pp = 1 if ('clip' in prog.tags or prog.name in ('absolute', 'sign')) else (1 if tier == 'quick' else 2)
        for where in (['post'] if tier == 'quick' else ['post', 'pre']):
            out.append(Unit('C03/%s-use:%s/D2,P%d' % (where, prog.name, Pp), 'symx.props.c03', 'h_prog',
                            {'pname': '%s-use:%s' % (where, prog.name), 'D': 2, 'P': Pp}, dict(opts)))
    for which in ('z[0]', 'z[::-1]', 'z', 'z[1:]'):
        out.append(Unit('C03/dependents sharing memory: [z, %s]/D2,P2' % which, 'symx.props.c03', 'h_aliased_dependents', {'which': which, 'D': 2, 'P': 2}, dict(opts)))
    out.append(Unit('C03/real polynomial ** complex scalar in reverse mode (float-decided)/D3,P2', 'symx.props.c03', 'h_pow_complex_reverse', {'D': 3, 'P': 2}, dict(opts)))
    n = 12 if tier == 'quick' else 160
    for i in range(n):
        length = 3 + (i % 4) if tier == 'quick' else 3 + (i % 8)
        # order-2 identities of long compositions with nested quotients exceed the solver cap: D=3 only up to length 4
        Dr = D if (tier == 'quick' or length <= 4) else 2
        name = 'random(seed=%d,len=%d)' % (1000 * seed + i, length)
        out.append(Unit('C03/%s/D%d,P%d' % (name, Dr, P), 'symx.props.c03', 'h_prog', {'pname': name, 'D': Dr, 'P': P}, dict(opts)))
    if tier != 'quick':
        for pn in ['x*x', 'exp', 'x/(1+x*x)', 'buffer', 'dot(mat,mat)', 'sum(x*exp(x)/(1+x0*x1)+sin(x)*x[::-1])', 'inv']:
            out.append(Unit('C03/%s/D4,P1' % pn, 'symx.props.c03', 'h_prog', {'pname': pn, 'D': 4, 'P': 1}, dict(opts)))
    return out
