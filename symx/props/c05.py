"""C05  Replaying a recorded graph reproduces the program.

Per program and (recording kind, replay sequence): the graph is recorded on
symbolic inputs of one kind (plain array or Taylor polynomial with some D, P);
(a) the values seen through the tracer nodes while recording equal the direct
evaluation on the unwrapped operands; (b) each replay with NEW independent
symbolic inputs of any kind/degree equals the direct evaluation of the program
on those inputs; (c) structural clause asserted on the recorded graph."""
import numpy as np

import symx
from .. import sym as S
from .. import npx, ops as O
from .. import programs as PR
from ..runner import Unit
from .common import mk_utpm, plain
from .c03 import Namespace, make_consts, get_prog, record

PROP = 'C05'
EXPLANATION = ('C05: programs and replay sequences are enumerated; recording inputs and replay inputs are independent '
               'symbols.  The structural clause (recorded once, in order, after operands; nothing while tracing is off) is '
               'a per-run assertion on the graph object, not a solver query.')


def make_value(ctx, prog, kind, name):
    """kind = 'nd' or ('utpm', D, P) -> (object for the real code, raw array)"""
    if kind == 'nd':
        arg = O.Arg('ndarray', prog.shape, prog.dom)
        raw = O.make_input(ctx, arg, name, 1, 1)
    else:
        _, D, P = kind
        arg = O.Arg('utpm', prog.shape, prog.dom)
        raw = O.make_input(ctx, arg, name, D, P)
    if 'symmetric' in prog.tags:
        n = prog.shape[0]
        for i in range(n):
            for j in range(i):
                raw[..., i, j] = raw[..., j, i]
    if any(t.startswith('fac:') for t in prog.tags):
        # zeroth coefficient(s) constructed from the factors of the factorisation the program uses
        from .c03 import factor_inputs
        if kind == 'nd':
            Z = np.empty((1, 1) + tuple(prog.shape), dtype=object)
            Z[0, 0] = raw
            raw = factor_inputs(ctx, prog, Z, name, 1)[0, 0]
        else:
            raw = factor_inputs(ctx, prog, raw, name, kind[2])
    if 'posdet' in prog.tags:
        for z in ([raw] if kind == 'nd' else [raw[0, p] for p in range(raw.shape[1])]):
            ctx.assume(z[0, 0] * z[1, 1] - z[0, 1] * z[1, 0] > 0)
    if 'clip' in prog.tags:
        z = raw if kind == 'nd' else raw[0]
        for idx in np.ndindex(*z.shape):
            ctx.assume(z[idx] != 0.5)
            ctx.assume(z[idx] != -0.5)
    return arg, raw


def value_of(v, algopy):
    if isinstance(v, algopy.UTPM):
        return plain(v.data)
    return plain(np.asarray(v)) if not isinstance(v, (S.Sym, S.SymC, float, int, complex, np.generic)) else v


def same_kind(ctx, a, b, algopy, label):
    ctx.fact(isinstance(a, algopy.UTPM) == isinstance(b, algopy.UTPM), '%s: result kinds %s vs %s' % (label, type(a).__name__, type(b).__name__))


def h_replay(ctx, pname, rec, replays):
    algopy = symx.load_algopy()
    prog = get_prog(pname)
    if 'ndonly' in prog.tags and ctx.mode == 'sym':
        # a float64 buffer cannot hold symbolic entries: decided on the float build
        ctx.fact(True, 'plain-array buffer program: decided on the float build')
        make_value(ctx, prog, rec, 'r')                      # (the float run draws the same variables)
        for k, kind in enumerate(replays):
            make_value(ctx, prog, tuple(kind) if not isinstance(kind, str) else kind, 'x%d_' % k)
        ctx.eq(S.const(0), S.const(0), 'replay == direct evaluation')
        return
    A = Namespace(algopy, make_consts(ctx, prog))
    rec = tuple(rec) if not isinstance(rec, str) else rec
    arg, R = make_value(ctx, prog, rec, 'r')
    xr = O.wrap(ctx, algopy, arg, R)
    # count the nodes the tracer creates
    calls = {'n': 0}
    orig_create = algopy.Function.create.__func__

    def counting_create(cls, *a, **k):
        if getattr(algopy.Function, 'cgraph', None) is not None:     # recording is on
            calls['n'] += 1
        return orig_create(cls, *a, **k)
    algopy.Function.create = classmethod(counting_create)
    try:
        cg, fx, fy = record(ctx, algopy, A, prog, xr)
    finally:
        algopy.Function.create = classmethod(orig_create)
    # (a) values while recording == direct evaluation
    direct = prog.f(A, O.wrap(ctx, algopy, arg, R))
    same_kind(ctx, fy.x, direct, algopy, 'recording')
    ctx.eq(value_of(fy.x, algopy), value_of(direct, algopy), 'recording value == direct evaluation')
    # (c) structure
    fl = cg.functionList
    ctx.fact(len(fl) == calls['n'], 'every created node is registered exactly once (%d nodes, %d creations)' % (len(fl), calls['n']))
    ctx.fact([f.ID for f in fl] == list(range(len(fl))), 'IDs are positions in execution order')
    ok = True
    for f in fl:
        for a in f.args:
            if isinstance(a, algopy.Function) and a is not f and not (a.ID < f.ID):
                ok = False
    ctx.fact(ok, 'every node is recorded after its operands')
    n0 = len(fl)
    junk = fx * 2.0 + fx        # tracing is off: must not be recorded
    ctx.fact(len(cg.functionList) == n0, 'nothing is recorded while recording is off')
    if 'ndonly' not in prog.tags:
        ctx.fp('graph', [f.func.__name__ for f in fl])
    # (b) replays
    handed_out = []
    for k, kind in enumerate(replays):
        kind = tuple(kind) if not isinstance(kind, str) else kind
        arg2, X = make_value(ctx, prog, kind, 'x%d_' % k)
        xin = O.wrap(ctx, algopy, arg2, X)
        try:
            out = cg.function([xin])[0]
        except Exception as e:
            ctx.fact(False, 'replay %d (%s) raised: %s' % (k, kind, str(e).strip().splitlines()[-1][:200] if str(e).strip() else type(e).__name__))
            continue
        ref = prog.f(A, O.wrap(ctx, algopy, arg2, X))
        same_kind(ctx, out, ref, algopy, 'replay %d %s' % (k, kind))
        a, b = value_of(out, algopy), value_of(ref, algopy)
        ctx.fact(np.shape(a) == np.shape(b), 'replay %d %s shape %s vs %s' % (k, kind, np.shape(a), np.shape(b)))
        if np.shape(a) == np.shape(b):
            ctx.eq(a, b, 'replay %d %s == direct evaluation' % (k, kind))
            handed_out.append((k, kind, out, np.array(a, dtype=object).copy(), xin, np.array(plain(X) if kind == 'nd' else X, dtype=object).copy()))
        ctx.fact(len(cg.functionList) == n0, 'replay does not grow the graph')
    # what earlier replays returned, and the inputs they were given, are still intact after the later ones
    for k, kind, out, want, xin, xwant in handed_out:
        ctx.eq(value_of(out, algopy), want, 'result of replay %d %s still intact after the later replays' % (k, kind))
        ctx.eq(value_of(xin, algopy), xwant, 'input of replay %d %s unchanged' % (k, kind))
    if 'ndonly' in prog.tags:
        del ctx.fps[:]        # (float-decided: there is no symbolic structure to compare with)
    ctx.eq(value_of(xr, algopy), np.array(plain(R) if rec == 'nd' else R, dtype=object), 'recording input unchanged by the replays')


def h_two_inputs(ctx, rec, replay):
    """two independent variables, an operation on the first one recorded
    before the second is created"""
    algopy = symx.load_algopy()
    A = Namespace(algopy, {})
    prog = PR.Prog('two', None, shape=(2,))

    def f(A, x, y):
        u = A.sin(x) * 2.0
        return u + y * y

    def mk(kind, name):
        kind = tuple(kind) if not isinstance(kind, str) else kind
        arg, raw = make_value(ctx, prog, kind, name)
        return arg, raw
    ax, RX = mk(rec, 'rx')
    ay, RY = mk(rec, 'ry')
    cg = algopy.CGraph()
    fx = algopy.Function(O.wrap(ctx, algopy, ax, RX))
    u = A.sin(fx) * 2.0
    fy = algopy.Function(O.wrap(ctx, algopy, ay, RY))
    fz = u + fy * fy
    cg.trace_off()
    cg.independentFunctionList = [fx, fy]
    cg.dependentFunctionList = [fz]
    ctx.eq(value_of(fz.x, algopy), value_of(f(A, O.wrap(ctx, algopy, ax, RX), O.wrap(ctx, algopy, ay, RY)), algopy), 'recording')
    for k in range(2):
        bx, X = mk(replay, 'x%d' % k)
        by, Y = mk(replay, 'y%d' % k)
        out = cg.function([O.wrap(ctx, algopy, bx, X), O.wrap(ctx, algopy, by, Y)])[0]
        ctx.eq(value_of(out, algopy), value_of(f(A, O.wrap(ctx, algopy, bx, X), O.wrap(ctx, algopy, by, Y)), algopy), 'replay %d' % k)


def h_replay_int(ctx, pname):
    """replay (and record) with an integer-typed ndarray, e.g. numpy.array([1, 2, 4]): the graph
    returns what the program returns on that array directly (NumPy semantics: 2 / int array is a
    float array).  The data are concrete whole numbers: decided on the float build."""
    algopy = symx.load_algopy()
    prog = get_prog(pname)
    if ctx.mode == 'sym':
        ctx.fact(True, 'concrete integer-typed data: decided on the float build')
        ctx.eq(S.const(0), S.const(0), 'integer-typed replay == direct evaluation')
        return
    A = Namespace(algopy, make_consts(ctx, prog))
    xi = np.array([1, 2, 4])
    xf = np.array([1.5, 2.5, 0.5])
    xu = algopy.UTPM(np.array([[[1.5, 2.5, 0.5]], [[0.5, -1.0, 2.0]]]))
    xc = np.array([1.5 + 0.5j, 2.5 - 1j, 0.5 + 2j])
    for rec_x, rep_x, label in ((xf, xi, 'float recording, integer replay'), (xi, xf, 'integer recording, float replay'), (xi, xi * 2, 'integer recording, integer replay'),
                                (xu, xi, 'polynomial recording, integer replay'), (xu, xc, 'polynomial recording, complex replay'), (xu, xi.astype(np.int32), 'polynomial recording, int32 replay')):
        try:
            ref_rec = prog.f(A, rec_x.copy())
            ref_rep = prog.f(A, rep_x.copy())
        except Exception:
            continue        # NumPy itself rejects the operation on this integer array
        cg = algopy.CGraph()
        fx = algopy.Function(rec_x.copy())
        fy = prog.f(A, fx)
        cg.trace_off()
        cg.independentFunctionList = [fx]
        cg.dependentFunctionList = [fy]
        ctx.eq(value_of(fy.x, algopy), value_of(ref_rec, algopy), '%s: recording value' % label)
        try:
            out = cg.function([rep_x.copy()])[0]
        except Exception as e:
            ctx.fact(False, '%s raised %s: %s' % (label, type(e).__name__, str(e).strip().splitlines()[-1][:120] if str(e).strip() else ''))
            continue
        ctx.eq(value_of(out, algopy), value_of(ref_rep, algopy), '%s == direct evaluation' % label)


def h_scratch_polynomial(ctx, D, P):
    """a scratch POLYNOMIAL (not traced, same (D, P) as the input) that the program refills before
    each use as a constant operand -- of an operator and of a function taking its constant through
    totype: a replay gives what the program gives when it is run directly"""
    algopy = symx.load_algopy()
    W = [O.make_input(ctx, O.Arg('utpm', (3,)), 'w%d' % i, D, P) for i in range(2)]
    X = O.make_input(ctx, O.Arg('utpm', (3,)), 'x', D, P)
    X2 = O.make_input(ctx, O.Arg('utpm', (3,)), 'z', D, P)

    def prog(x):
        scratch = mk_utpm(ctx, algopy, W[0] * 0)
        y = x * 0.
        for i in range(2):
            scratch.data[...] = mk_utpm(ctx, algopy, W[i]).data
            y = y + x * scratch
            y = y + algopy.dot(scratch, x)
            y = y + scratch / (x * x + 1.)
        return y
    cg = algopy.CGraph()
    fx = algopy.Function(mk_utpm(ctx, algopy, X))
    fy = prog(fx)
    cg.trace_off()
    cg.independentFunctionList = [fx]
    cg.dependentFunctionList = [fy]
    ctx.eq(plain(fy.x.data), plain(prog(mk_utpm(ctx, algopy, X)).data), 'value while recording == direct evaluation')
    for k, Z in enumerate((X, X2)):
        out = cg.function([mk_utpm(ctx, algopy, Z)])[0]
        ctx.eq(plain(out.data), plain(prog(mk_utpm(ctx, algopy, Z)).data), 'replay %d == direct evaluation' % k)


def h_replay_scalar_kinds(ctx, pname):
    """scalar programs (a 0-d accumulator updated in place, a branch-free polynomial) recorded and
    replayed with every scalar kind: python float, numpy.float64, 0-d array, 0-d polynomial --
    all 16 record/replay combinations return what the program returns directly.  Concrete
    numbers: decided on the float build."""
    algopy = symx.load_algopy()
    if ctx.mode == 'sym':
        ctx.fact(True, 'concrete scalar kinds: decided on the float build')
        ctx.eq(S.const(0), S.const(0), 'scalar replay == direct evaluation')
        return

    def acc(x):
        s = x * 1.
        s += x
        s *= 3.
        s -= 0.5
        s /= 2.
        return s * x

    def poly(x):
        return x * x * x - 2. * x + 1.
    f = {'accumulator': acc, 'polynomial': poly}[pname]
    kinds = [('python float', lambda v: float(v)), ('numpy.float64', lambda v: np.float64(v)), ('0-d array', lambda v: np.array(v)),
             ('0-d polynomial', lambda v: algopy.UTPM(np.array([[v], [1.0], [0.25]])))]
    for rname, rk in kinds:
        for pname2, pk in kinds:
            cg = algopy.CGraph()
            fx = algopy.Function(rk(0.5))
            try:
                fy = f(fx)
            except Exception as e:
                ctx.fact(False, 'recording with a %s raised %s' % (rname, type(e).__name__))
                continue
            cg.trace_off()
            cg.independentFunctionList = [fx]
            cg.dependentFunctionList = [fy]
            for v in (1.5, -0.75):
                ref = f(pk(v))
                try:
                    out = cg.function([pk(v)])[0]
                except Exception as e:
                    ctx.fact(False, 'recorded with a %s, replayed with a %s: raised %s' % (rname, pname2, str(e).strip().splitlines()[-1][:100] if str(e).strip() else type(e).__name__))
                    continue
                ctx.eq(np.asarray(value_of(out, algopy), dtype=object), np.asarray(value_of(ref, algopy), dtype=object), 'recorded with a %s, replayed with a %s at %s' % (rname, pname2, v))


def h_interleaved(ctx, rec, replay, what):
    """a finished graph is evaluated (function / gradient / pushforward+pullback) WHILE another
    graph is being recorded: the recording continues unaffected and is complete"""
    algopy = symx.load_algopy()
    A = Namespace(algopy, {})
    prog = PR.Prog('il', None, shape=(2,))

    def mk(kind, name):
        kind = tuple(kind) if not isinstance(kind, str) else kind
        return make_value(ctx, prog, kind, name)
    a1, R1 = mk(rec, 'r1')
    cg1 = algopy.CGraph()
    f1 = algopy.Function(O.wrap(ctx, algopy, a1, R1))
    y1 = A.sum(A.sin(f1) * f1)
    cg1.trace_off()
    cg1.independentFunctionList = [f1]
    cg1.dependentFunctionList = [y1]
    n1 = len(cg1.functionList)

    def g(A, x):
        u = x * x
        v = A.exp(u) + x
        return v * u
    a2, R2 = mk(rec, 'r2')
    cg2 = algopy.CGraph()
    f2 = algopy.Function(O.wrap(ctx, algopy, a2, R2))
    u = f2 * f2
    # ---- use of the first graph in the middle of the second recording
    aw, W = mk('nd', 'w')
    w = O.wrap(ctx, algopy, aw, W)
    if what == 'function':
        cg1.function([w])
    elif what == 'gradient':
        cg1.gradient(w)
    else:
        au, Wu = mk(('utpm', 1, 1), 'wu')
        cg1.pushforward([O.wrap(ctx, algopy, au, Wu)])
        cg1.pullback([cg1.dependentFunctionList[0].x.zeros_like() + 1.0])
    v = A.exp(u) + f2
    z = v * u
    cg2.trace_off()
    cg2.independentFunctionList = [f2]
    cg2.dependentFunctionList = [z]
    ctx.fact(len(cg1.functionList) == n1, 'the finished graph did not grow')
    ctx.fp('graph2', [f.func.__name__ for f in cg2.functionList])
    ctx.eq(value_of(z.x, algopy), value_of(g(A, O.wrap(ctx, algopy, a2, R2)), algopy), 'recording value of the second graph')
    for k in range(2):
        b, X = mk(replay, 'x%d' % k)
        try:
            out = cg2.function([O.wrap(ctx, algopy, b, X)])[0]
        except Exception as e:
            ctx.fact(False, 'replay of the second graph raised %s: %s' % (type(e).__name__, str(e).strip().splitlines()[-1][:120] if str(e).strip() else ''))
            return
        ctx.eq(value_of(out, algopy), value_of(g(A, O.wrap(ctx, algopy, b, X)), algopy), 'replay %d of the second graph' % k)


def h_ones_zeros(ctx, rec, replay):
    """buffers allocated with zeros/ones/zeros_like/ones_like of a traced dtype"""
    algopy = symx.load_algopy()
    A = Namespace(algopy, {})
    prog = PR.Prog('oz', None, shape=(3,))

    def f(A, x):
        b = A.ones(3, dtype=x)
        b[1] = x[0] * x[2]
        c = A.zeros_like(x)
        c[0] = b[1] + b[2]
        c[2] = x[1]
        d = A.ones_like(x)
        return b * c + d * x[1]
    rec = tuple(rec) if not isinstance(rec, str) else rec
    replay = tuple(replay) if not isinstance(replay, str) else replay
    arg, R = make_value(ctx, prog, rec, 'r')
    cg = algopy.CGraph()
    fx = algopy.Function(O.wrap(ctx, algopy, arg, R))
    fy = f(A, fx)
    cg.trace_off()
    cg.independentFunctionList = [fx]
    cg.dependentFunctionList = [fy]
    ref = f(A, O.wrap(ctx, algopy, arg, R))
    same_kind(ctx, fy.x, ref, algopy, 'recording')
    ctx.eq(value_of(fy.x, algopy), value_of(ref, algopy), 'recording')
    arg2, X = make_value(ctx, prog, replay, 'x')
    try:
        out = cg.function([O.wrap(ctx, algopy, arg2, X)])[0]
    except Exception as e:
        ctx.fact(False, 'replay raised: %s' % (str(e).strip().splitlines()[-1][:200] if str(e).strip() else type(e).__name__))
        return
    ref = f(A, O.wrap(ctx, algopy, arg2, X))
    same_kind(ctx, out, ref, algopy, 'replay')
    a, b = value_of(out, algopy), value_of(ref, algopy)
    ctx.fact(np.shape(a) == np.shape(b), 'replay shape %s vs %s' % (np.shape(a), np.shape(b)))
    if np.shape(a) == np.shape(b):
        ctx.eq(a, b, 'replay == direct evaluation')


def h_nested_graphs(ctx):
    """evaluating an already recorded graph while another one is being recorded"""
    algopy = symx.load_algopy()
    A = Namespace(algopy, {})
    prog = PR.Prog('n', None, shape=(2,))
    arg, R = make_value(ctx, prog, ('utpm', 2, 1), 'r')
    cgA = algopy.CGraph()
    fa = algopy.Function(O.wrap(ctx, algopy, arg, R))
    ya = fa * fa
    cgA.trace_off()
    cgA.independentFunctionList = [fa]
    cgA.dependentFunctionList = [ya]
    arg2, S2 = make_value(ctx, prog, ('utpm', 2, 1), 's')
    cgB = algopy.CGraph()
    fb = algopy.Function(O.wrap(ctx, algopy, arg2, S2))
    t = A.exp(fb)
    arg3, T3 = make_value(ctx, prog, ('utpm', 2, 1), 't')
    va = cgA.function([O.wrap(ctx, algopy, arg3, T3)])[0]       # evaluate graph A in the middle of recording B
    yb = t * fb + fb
    cgB.trace_off()
    cgB.independentFunctionList = [fb]
    cgB.dependentFunctionList = [yb]
    ctx.fact([f.func.__name__ for f in cgB.functionList] == ['Id', 'exp', 'mul', 'add'],
             'graph B records all its operations: %s' % [f.func.__name__ for f in cgB.functionList])
    ctx.eq(value_of(va, algopy), plain((O.wrap(ctx, algopy, arg3, T3) * O.wrap(ctx, algopy, arg3, T3)).data), 'graph A value')
    arg4, X = make_value(ctx, prog, ('utpm', 3, 2), 'x')
    out = cgB.function([O.wrap(ctx, algopy, arg4, X)])[0]
    xx = O.wrap(ctx, algopy, arg4, X)
    ctx.eq(value_of(out, algopy), plain((A.exp(xx) * xx + xx).data), 'replay of graph B')


def units(tier, seed):
    out = []
    opts = {'property': PROP, 'path_budget': 1000, 'validate_paths': 2}
    U11, U22, U32, U13 = ('utpm', 1, 1), ('utpm', 2, 2), ('utpm', 3, 2), ('utpm', 1, 3)
    if tier == 'quick':
        combos = [('nd', [U22, 'nd']), (U11, ['nd', U32]), (U22, [U13]), ('nd', ['nd', 'nd'])]
    else:
        combos = [('nd', [U22, 'nd', U11]), (U11, ['nd', U32, U22]), (U22, [U13, 'nd', U22]), (U32, [U11, U32]), ('nd', ['nd', 'nd', U32])]
    progs = [p for p in PR.catalogue(ndonly=True) if not ('slow' in p.tags) and not any(t.startswith('fac:') for t in p.tags)]
    for prog in progs:
        kink = 'clip' in prog.tags or prog.name in ('absolute', 'sign') or 'lu' in prog.tags
        for i, (rec, reps) in enumerate(combos):
            if kink and i > 0:
                continue
            if 'ndonly' in prog.tags:
                # a plain-array buffer that takes traced values: plain-array recording and replays only
                if i > 0:
                    continue
                rec, reps = 'nd', ['nd', 'nd', 'nd']
            if 'utpmonly' in prog.tags:
                # the program means something else on plain arrays (an element of an ndarray is a
                # scalar copy, an element of a polynomial array is a view): polynomial operands only
                if rec == 'nd':
                    continue
                reps = [r for r in reps if r != 'nd'] or [U22]
            if kink:
                rec, reps = ('utpm', 2, 1), [('utpm', 2, 1)]
            out.append(Unit('C05/%s/rec=%s,replay=%s' % (prog.name, rec, reps), 'symx.props.c05', 'h_replay',
                            {'pname': prog.name, 'rec': rec, 'replays': reps}, dict(opts)))
    # factorisations inside the program: recording and replay points are both built from factors
    U21, U12 = ('utpm', 2, 1), ('utpm', 1, 2)
    for prog in PR.catalogue():
        if 'slow' in prog.tags or 'heavy' in prog.tags or not any(t.startswith('fac:') for t in prog.tags):
            continue
        # (polynomial operands only: on plain arrays the program calls numpy.linalg directly, whose
        # LAPACK results the contract stubs do not model beyond the registered factors)
        fcombos = [(U11, [U21, U12]), (U21, [U11, U21])] if tier != 'quick' else [(U11, [U21])]
        if 'fac:svd' in prog.tags:
            # (svd forks 16 ways per evaluation at D = 2: one recording/replay combination; the wide
            # programs with a symbolic 3x3 rotation exceed the time limit)
            if prog.shape == (2, 3) and 'fixedrot' not in prog.tags:
                continue
            fcombos = fcombos[:1]
        for rec, reps in fcombos:
            out.append(Unit('C05/%s/rec=%s,replay=%s' % (prog.name, rec, reps), 'symx.props.c05', 'h_replay',
                            {'pname': prog.name, 'rec': rec, 'replays': reps}, dict(opts, crosscheck=False)))
    nrand = 8 if tier == 'quick' else 900
    for i in range(nrand):
        name = 'random(seed=%d,len=%d)' % (5000 + 1000 * seed + i, 3 + i % 6)
        rec, reps = combos[i % len(combos)]
        out.append(Unit('C05/%s/rec=%s,replay=%s' % (name, rec, reps), 'symx.props.c05', 'h_replay',
                        {'pname': name, 'rec': rec, 'replays': reps}, dict(opts)))
    for rec, rep in [('nd', U22), (U11, U22), (U22, 'nd')]:
        out.append(Unit('C05/two-independents/rec=%s,replay=%s' % (rec, rep), 'symx.props.c05', 'h_two_inputs', {'rec': rec, 'replay': rep}, dict(opts)))
        out.append(Unit('C05/zeros-ones-buffers/rec=%s,replay=%s' % (rec, rep), 'symx.props.c05', 'h_ones_zeros', {'rec': rec, 'replay': rep}, dict(opts)))
    for pn in ['1/x', 'x/x[::-1]', 'x/(1+x*x)', 'x*x', 'x**2', 'x**-1', 'x-const', 'const-x', 'sqrt', 'exp', 'reciprocal', 'x[0]*x[1]', 'buffer', 'sum', 'prod', 'augmented assignment on a 0-d accumulator', 'x*x']:
        out.append(Unit('C05/integer-typed arrays/%s' % pn, 'symx.props.c05', 'h_replay_int', {'pname': pn}, dict(opts)))
    out.append(Unit('C05/scratch polynomial constant refilled between uses/D2,P2', 'symx.props.c05', 'h_scratch_polynomial', {'D': 2, 'P': 2}, dict(opts)))
    for pn in ('accumulator', 'polynomial'):
        out.append(Unit('C05/scalar kinds (python float, numpy.float64, 0-d array, 0-d polynomial)/%s' % pn, 'symx.props.c05', 'h_replay_scalar_kinds', {'pname': pn}, dict(opts)))
    for what in ('function', 'gradient', 'pushforward+pullback'):
        out.append(Unit('C05/another graph used while recording (%s)' % what, 'symx.props.c05', 'h_interleaved',
                        {'rec': 'nd', 'replay': U22, 'what': what}, dict(opts)))
    out.append(Unit('C05/nested-graphs', 'symx.props.c05', 'h_nested_graphs', {}, dict(opts)))
    return out
