"""C08  Matrix factorizations satisfy their defining equations modulo t^D.

The zeroth coefficient A0 of each direction is constructed from the parameters
of its factorisation (rotation parameter(s), free triangular / diagonal
entries), so that "for all admissible A0" = "for all parameter values"; the
LAPACK call on A0 is replaced by a contract stub returning those factors (LU:
an explicit pivoting model with symbolic branches).  All higher coefficients
are free symbols.  The real Taylor recurrences run on that input and the
defining equations are proved as polynomial identities modulo t^D."""
from fractions import Fraction

import numpy as np

import symx
from .. import sym as S
from .. import lib, npx, stubs
from ..runner import Unit
from .common import mk_utpm, plain

PROP = 'C08'
EXPLANATION = ('C08: zeroth coefficients parametrised by their factors (rational parametrisation of O(2)/SO(3)), higher '
               'coefficients free; QR=A, Q^TQ=I, R upper; LL^T=A; PLU=A; AQ=Q diag(lambda), Q^TQ=I decided modulo t^D.')
ASSUMPTIONS = ['the LAPACK call on the zeroth coefficient is a contract stub returning the factors A0 was built from '
               '(QR, Cholesky, eigh, eig) or an explicit partial-pivoting model (LU); that these equal what NumPy/SciPy '
               'return is checked numerically on the float build in the validation runs only',
               'rank / eigenvalue-gap thresholds are assumed cleared (|r_ii| > 1e-14 resp. gaps > 1e-8 hold with margin)']


def V(ctx, name, shape):
    A = np.empty(shape, dtype=object)
    for idx in np.ndindex(*shape):
        A[idx] = ctx.var('%s%s' % (name, list(idx)))
    return A


def rot2(ctx, name, sigma=1):
    u = ctx.var('u_' + name)
    c = (1 - u * u) / (1 + u * u)
    s = 2 * u / (1 + u * u)
    Q = np.empty((2, 2), dtype=object)
    Q[0, 0], Q[0, 1], Q[1, 0], Q[1, 1] = c, -s * sigma, s, c * sigma
    return Q


def rot3(ctx, name, sigma=1, fixed=None):
    """Cayley transform (I - S)(I + S)^-1 of a skew matrix: all rotations but half turns
    (fixed=(a, b, c): one concrete rational rotation instead of a symbolic one)"""
    if fixed is not None:
        a, b, c = [(float(Fraction(v)) if ctx.mode == 'float' else S.const(Fraction(v))) for v in fixed]
    else:
        a, b, c = ctx.var('ca_' + name), ctx.var('cb_' + name), ctx.var('cc_' + name)
    k = 1 + a * a + b * b + c * c
    Q = np.empty((3, 3), dtype=object)
    Q[0, 0] = (1 + a * a - b * b - c * c) / k
    Q[0, 1] = 2 * (a * b - c) / k
    Q[0, 2] = 2 * (a * c + b) / k
    Q[1, 0] = 2 * (a * b + c) / k
    Q[1, 1] = (1 - a * a + b * b - c * c) / k
    Q[1, 2] = 2 * (b * c - a) / k
    Q[2, 0] = 2 * (a * c - b) / k
    Q[2, 1] = 2 * (b * c + a) / k
    Q[2, 2] = (1 - a * a - b * b + c * c) / k
    if sigma < 0:
        Q[:, 2] = -Q[:, 2]
    return Q


def upper(ctx, name, K, N, margin=True):
    R = np.empty((K, N), dtype=object)
    for i in range(K):
        for j in range(N):
            if j < i:
                R[i, j] = 0 if ctx.mode == 'float' else S.const(0)
            else:
                R[i, j] = ctx.var('%s[%d,%d]' % (name, i, j))
                if i == j:
                    # full column rank with the rank threshold (1e-14 / 1e-16) cleared by a margin
                    ctx.assume(R[i, j] * R[i, j] > Fraction(1, 10**24))
    return R


def mat(a, b):
    return np.dot(a, b)


def ps_matmul(Acoef, Bcoef, D):
    """truncated product of matrix polynomials given as lists of coefficient matrices"""
    out = []
    for d in range(D):
        s = None
        for c in range(d + 1):
            t = np.dot(Acoef[c], Bcoef[d - c])
            s = t if s is None else s + t
        out.append(s)
    return out


def tr(coefs):
    return [np.transpose(c) for c in coefs]


def eye_series(n, D, ctx):
    z = 0.0 if ctx.mode == 'float' else S.const(0)
    o = 1.0 if ctx.mode == 'float' else S.const(1)
    I = np.empty((n, n), dtype=object)
    Z = np.empty((n, n), dtype=object)
    for i in range(n):
        for j in range(n):
            I[i, j] = o if i == j else z
            Z[i, j] = z
    return [I] + [Z] * (D - 1)


def build_input(ctx, A0s, D, shape, name='A', sym=False, cplx=False):
    """(D,P)+shape coefficient array with given zeroth coefficients per direction"""
    P = len(A0s)
    mkvar = ctx.cvar if cplx else ctx.var
    X = np.empty((D, P) + shape, dtype=object)
    for p in range(P):
        X[0, p] = A0s[p]
        for d in range(1, D):
            for idx in np.ndindex(*shape):
                if sym and idx[0] > idx[1]:
                    X[(d, p) + idx] = X[(d, p) + (idx[1], idx[0])]
                else:
                    X[(d, p) + idx] = mkvar('%s%d_%d%s' % (name, d, p, list(idx)))
    return X


def dirty(ctx, algopy, name, shape):
    """a result buffer that already holds arbitrary values (a reused workspace passed as out=)"""
    W = np.empty(shape, dtype=object)
    for idx in np.ndindex(*shape):
        W[idx] = ctx.var('%s%s' % (name, list(idx)))
    return mk_utpm(ctx, algopy, W)


def coefs(Y, p):
    return [Y[d, p] for d in range(Y.shape[0])]


# ---------------------------------------------------------------------------

def h_qr(ctx, M, N, D, P, full=False, sigma=1, epsilon=None):
    """epsilon (a user-supplied rank threshold, string of a rational): the last column of the base
    matrix is of magnitude 1e-16 -- full column rank for the given threshold, "rank deficient" for
    the default 1e-14"""
    algopy = symx.load_algopy()
    K = min(M, N)
    A0s = []
    for p in range(P):
        Ms = M if N >= M else M
        if M == 1:
            Qfull = np.empty((1, 1), dtype=object)
            Qfull[0, 0] = (1.0 if ctx.mode == 'float' else S.const(1)) * sigma
        else:
            Qfull = rot2(ctx, 'p%d' % p, sigma) if M == 2 else rot3(ctx, 'p%d' % p, sigma)
        if N >= M:
            # square or wide: numpy's qr is called on the leading M x M block
            Rsq = upper(ctx, 'R%d' % p, M, M, margin=epsilon is None)
            if epsilon is not None:
                tiny = (Fraction(1, 10**16) if ctx.mode == 'sym' else 1e-16)
                for i in range(M):
                    Rsq[i, M - 1] = Rsq[i, M - 1] * tiny
                ctx.assume(Rsq[M - 1, M - 1] * Rsq[M - 1, M - 1] > Fraction(1, 10**34))
                for i in range(M - 1):
                    ctx.assume(Rsq[i, i] * Rsq[i, i] > Fraction(1, 100))
            A1 = mat(Qfull, Rsq)
            if ctx.mode == 'sym':
                stubs.register('qr', A1, (Qfull, Rsq))
            if N > M:
                rest = V(ctx, 'W%d' % p, (M, N - M))
                A0 = np.concatenate([A1, rest], axis=1)
            else:
                A0 = A1
        else:
            if full:
                Rf = np.concatenate([upper(ctx, 'R%d' % p, N, N), np.zeros((M - N, N), dtype=object) * 0 + (0.0 if ctx.mode == 'float' else S.const(0))], axis=0)
                A0 = mat(Qfull, Rf)
                if ctx.mode == 'sym':
                    stubs.register('qr', A0, (Qfull, Rf))
            else:
                Rr = upper(ctx, 'R%d' % p, N, N)
                if epsilon is not None:
                    tiny = (Fraction(1, 10**16) if ctx.mode == 'sym' else 1e-16)
                    for i in range(N):
                        Rr[i, N - 1] = Rr[i, N - 1] * tiny
                    for i in range(N - 1):
                        ctx.assume(Rr[i, i] * Rr[i, i] > Fraction(1, 100))
                Qr = Qfull[:, :N]
                A0 = mat(Qr, Rr)
                if ctx.mode == 'sym':
                    stubs.register('qr', A0, (Qr, Rr))
        if full and N >= M:
            pass
        A0s.append(A0)
    X = build_input(ctx, A0s, D, (M, N))
    if epsilon is not None:
        # the whole last column of A(t) is of magnitude 1e-16: A(t) = B(t) diag(1, ..., 1e-16)
        tiny = (Fraction(1, 10**16) if ctx.mode == 'sym' else 1e-16)
        for d in range(1, D):
            X[d, :, :, N - 1] = X[d, :, :, N - 1] * tiny
    A = mk_utpm(ctx, algopy, X)
    KQ = M if full else K
    if ctx.opts.get('dirty_out'):
        # reused workspace: the result must not depend on what the buffers held before
        outb = (dirty(ctx, algopy, 'wq', (D, P, M, KQ)), dirty(ctx, algopy, 'wr', (D, P, KQ, N)))
        Q, R = (algopy.UTPM.qr_full if full else algopy.UTPM.qr)(A, out=outb)
        ctx.fact(Q is outb[0] and R is outb[1], 'the out= buffers are returned')
    elif full:
        Q, R = algopy.qr_full(A)
    elif epsilon is not None:
        Q, R = algopy.UTPM.qr(A, epsilon=float(Fraction(epsilon)))
    else:
        Q, R = algopy.qr(A)
    Qd, Rd = plain(Q.data), plain(R.data)
    ctx.fact(Qd.shape == (D, P, M, KQ) and Rd.shape == (D, P, KQ, N), 'factor shapes %s %s' % (Qd.shape, Rd.shape))
    for p in range(P):
        Qc, Rc, Ac = coefs(Qd, p), coefs(Rd, p), coefs(X, p)
        QR = ps_matmul(Qc, Rc, D)
        QtQ = ps_matmul(tr(Qc), Qc, D)
        I = eye_series(KQ, D, ctx)
        for d in range(D):
            if epsilon is not None:
                # compare column-relative: the last column is of magnitude 1e-16
                big = (Fraction(10**16) if ctx.mode == 'sym' else 1e16)
                QRs, As = np.array(QR[d], dtype=object), np.array(Ac[d], dtype=object)
                QRs[:, N - 1] = QRs[:, N - 1] * big
                As[:, N - 1] = As[:, N - 1] * big
                ctx.eq(QRs, As, 'QR==A (last column scaled by 1e16) order %d dir %d' % (d, p))
            else:
                ctx.eq(QR[d], Ac[d], 'QR==A order %d dir %d' % (d, p))
            ctx.eq(QtQ[d], I[d], 'QtQ==I order %d dir %d' % (d, p))
            for i in range(KQ):
                for j in range(min(i, N)):
                    ctx.eq(Rc[d][i, j], 0, 'R upper [%d,%d] order %d dir %d' % (i, j, d, p))
    ctx.eq(plain(A.data), X, 'input unchanged')


def h_cholesky(ctx, n, D, P):
    algopy = symx.load_algopy()
    A0s = []
    for p in range(P):
        L0 = np.empty((n, n), dtype=object)
        for i in range(n):
            for j in range(n):
                if j > i:
                    L0[i, j] = 0.0 if ctx.mode == 'float' else S.const(0)
                elif i == j:
                    L0[i, j] = ctx.var('L%d[%d,%d]' % (p, i, j), pos=True)
                else:
                    L0[i, j] = ctx.var('L%d[%d,%d]' % (p, i, j))
        A0 = mat(L0, L0.T)
        if ctx.mode == 'sym':
            stubs.register('cholesky', A0, L0)
        A0s.append(A0)
    X = build_input(ctx, A0s, D, (n, n), sym=True)
    A = mk_utpm(ctx, algopy, X)
    if ctx.opts.get('dirty_out'):
        outb = dirty(ctx, algopy, 'wl', (D, P, n, n))
        L = algopy.UTPM.cholesky(A, out=outb)
        ctx.fact(L is outb, 'the out= buffer is returned')
    else:
        L = algopy.cholesky(A)
    Ld = plain(L.data)
    for p in range(P):
        Lc, Ac = coefs(Ld, p), coefs(X, p)
        LLt = ps_matmul(Lc, tr(Lc), D)
        for d in range(D):
            ctx.eq(LLt[d], Ac[d], 'LLt==A order %d dir %d' % (d, p))
            for i in range(n):
                for j in range(i + 1, n):
                    ctx.eq(Lc[d][i, j], 0, 'L lower [%d,%d] order %d dir %d' % (i, j, d, p))
    ctx.eq(plain(A.data), X, 'input unchanged')


def h_lu(ctx, n, D, P, variant):
    algopy = symx.load_algopy()
    from algopy import utils
    X = np.empty((D, P, n, n), dtype=object)
    for idx in np.ndindex(*X.shape):
        X[idx] = ctx.var('A%s' % list(idx))
    A = mk_utpm(ctx, algopy, X)
    if variant == 'lu':
        W, L, U = algopy.UTPM.lu(A)
        Wd, Ld, Ud = plain(W.data), plain(L.data), plain(U.data)
    elif variant == 'lu2':
        PIV, L, U = algopy.UTPM.lu2(A)
        Wd = plain(algopy.UTPM.piv2mat(PIV).data)
        Ld, Ud = plain(L.data), plain(U.data)
        for d in range(1, D):
            ctx.eq(plain(PIV.data)[d], np.zeros((P, n)), 'pivot vector is constant (order %d)' % d)
    else:
        LU, PIV = algopy.UTPM.lu_factor(A)
        LUd = plain(LU.data)
        Wd = plain(algopy.UTPM.piv2mat(PIV).data)
        Ld = np.empty(LUd.shape, dtype=object)
        Ud = np.empty(LUd.shape, dtype=object)
        for d in range(D):
            for p in range(P):
                Ld[d, p] = np.tril(LUd[d, p], -1) + (np.eye(n) if d == 0 else 0)
                Ud[d, p] = np.triu(LUd[d, p])
    for p in range(P):
        Wc, Lc, Uc, Ac = coefs(Wd, p), coefs(Ld, p), coefs(Ud, p), coefs(X, p)
        PLU = ps_matmul(ps_matmul(Wc, Lc, D), Uc, D)
        for d in range(D):
            ctx.eq(PLU[d], Ac[d], 'PLU==A order %d dir %d' % (d, p))
            if d > 0:
                ctx.eq(Wc[d], np.zeros((n, n)), 'P constant order %d dir %d' % (d, p))
            for i in range(n):
                for j in range(n):
                    if j > i:
                        ctx.eq(Lc[d][i, j], 0, 'L lower [%d,%d] order %d dir %d' % (i, j, d, p))
                    if j < i:
                        ctx.eq(Uc[d][i, j], 0, 'U upper [%d,%d] order %d dir %d' % (i, j, d, p))
                ctx.eq(Lc[d][i, i], 1 if d == 0 else 0, 'L unit diagonal [%d] order %d dir %d' % (i, d, p))
        # P is a permutation matrix
        W0 = Wc[0]
        for i in range(n):
            ctx.eq(sum(W0[i, j] for j in range(n)), 1, 'P row sum')
            ctx.eq(sum(W0[j, i] for j in range(n)), 1, 'P col sum')
    ctx.eq(plain(A.data), X, 'input unchanged')


def h_eigh(ctx, n, D, P, sigma=1, epsilon=None, offset=None):
    """offset=k: eigenvalues 2**k + mu_i with 1 < mu_{i+1} - mu_i < 2, i.e. clearly distinct
    (gap >> 1e-8) but tiny RELATIVE to their magnitude"""
    algopy = symx.load_algopy()
    A0s = []
    lams = []
    for p in range(P):
        Q0 = rot2(ctx, 'p%d' % p, sigma) if n == 2 else rot3(ctx, 'p%d' % p, sigma)
        lam = [ctx.var('lam%d_%d' % (p, i)) for i in range(n)]
        if offset is not None:
            ctx.assume(lam[0] > 0)
            ctx.assume(lam[0] < 1)
            for i in range(1, n):
                ctx.assume(lam[i] - lam[i - 1] < 2)
            big = (2.0 ** offset) if ctx.mode == 'float' else S.const(Fraction(2) ** offset)
            mu = lam
            lam = [big + m for m in mu]
            for i in range(1, n):
                ctx.assume(mu[i] - mu[i - 1] > 1)
        for i in range(1, n):
            if offset is not None:
                continue
            if epsilon is None:
                ctx.assume(lam[i] - lam[i - 1] > 1)          # ascending, gap cleared with margin
            else:
                # user-supplied threshold: distinct eigenvalues closer than the default 1e-8
                ctx.assume(lam[i] - lam[i - 1] > Fraction(100) * Fraction(epsilon))
                ctx.assume(lam[i] - lam[i - 1] < Fraction(1, 10**9))
        Lm = np.empty((n, n), dtype=object)
        for i in range(n):
            for j in range(n):
                Lm[i, j] = lam[i] if i == j else (0.0 if ctx.mode == 'float' else S.const(0))
        A0 = mat(mat(Q0, Lm), Q0.T)
        if ctx.mode == 'sym':
            stubs.register('eigh', A0, (np.array(lam, dtype=object), Q0))
        A0s.append(A0)
        lams.append(lam)
    X = build_input(ctx, A0s, D, (n, n), sym=True)
    A = mk_utpm(ctx, algopy, X)
    if ctx.opts.get('dirty_out'):
        outb = (dirty(ctx, algopy, 'wl', (D, P, n)), dirty(ctx, algopy, 'wq', (D, P, n, n)))
        l, Q = algopy.UTPM.eigh(A, out=outb)
        ctx.fact(l is outb[0] and Q is outb[1], 'the out= buffers are returned')
    else:
        l, Q = algopy.eigh(A) if epsilon is None else algopy.eigh(A, epsilon=float(Fraction(epsilon)))
    ld, Qd = plain(l.data), plain(Q.data)
    ctx.fact(ld.shape == (D, P, n) and Qd.shape == (D, P, n, n), 'shapes')
    for p in range(P):
        Qc, Ac = coefs(Qd, p), coefs(X, p)
        Lc = []
        for d in range(D):
            Lm = np.empty((n, n), dtype=object)
            for i in range(n):
                for j in range(n):
                    Lm[i, j] = ld[d, p, i] if i == j else (0.0 if ctx.mode == 'float' else S.const(0))
            Lc.append(Lm)
        QLQt = ps_matmul(ps_matmul(Qc, Lc, D), tr(Qc), D)
        QtQ = ps_matmul(tr(Qc), Qc, D)
        I = eye_series(n, D, ctx)
        for d in range(D):
            # A = Q diag(lam) Q^T together with Q^T Q = I is A Q = Q diag(lam); this form does not
            # depend on the sign convention of the eigenvectors
            ctx.eq(QLQt[d], Ac[d], 'Q diag(lam) Qt==A order %d dir %d' % (d, p))
            ctx.eq(QtQ[d], I[d], 'QtQ==I order %d dir %d' % (d, p))
        for i in range(n):
            ctx.eq(ld[0, p, i], lams[p][i], 'lambda_0 ascending as returned by numpy [%d] dir %d' % (i, p))
        if ctx.mode == 'float':
            # numeric only: the zeroth coefficients are the factorisation NumPy returns (up to the sign of each eigenvector)
            w, Vn = np.linalg.eigh(np.array(X[0, p].tolist(), dtype=float))
            Q0f = np.array(Qd[0, p].tolist(), dtype=float)
            ctx.fact(bool(np.allclose(np.abs(np.dot(Vn.T, Q0f)), np.eye(n), atol=1e-5)), 'Q_0 equals numpy.linalg.eigh eigenvectors up to sign (dir %d)' % p)
    ctx.eq(plain(A.data), X, 'input unchanged')


def h_eigh_repeated(ctx, D, P):
    """2x2, A0 = lam0 * I (exactly repeated eigenvalue), splitting at order 1:
    A(t) = lam0 I + t Q1 diag(mu) Q1^T + t^2 A2 + ...   (mu_1 < mu_2)"""
    algopy = symx.load_algopy()
    n = 2
    X = np.empty((D, P, n, n), dtype=object)
    zero = 0.0 if ctx.mode == 'float' else S.const(0)
    one = 1.0 if ctx.mode == 'float' else S.const(1)
    mus = {}
    for p in range(P):
        lam0 = ctx.var('lam0_%d' % p)
        A0 = np.empty((n, n), dtype=object)
        A0[0, 0], A0[0, 1], A0[1, 0], A0[1, 1] = lam0, zero, zero, lam0
        I2 = np.empty((n, n), dtype=object)
        I2[0, 0], I2[0, 1], I2[1, 0], I2[1, 1] = one, zero, zero, one
        if ctx.mode == 'sym':
            stubs.register('eigh', A0, (np.array([lam0, lam0], dtype=object), I2))
        X[0, p] = A0
        if D > 1:
            Q1 = rot2(ctx, 'q1_%d' % p)
            mu = [ctx.var('mu%d_%d' % (p, i)) for i in range(n)]
            ctx.assume(mu[1] - mu[0] > 1)
            mus[p] = mu
            Mm = np.empty((n, n), dtype=object)
            Mm[0, 0], Mm[0, 1], Mm[1, 0], Mm[1, 1] = mu[0], zero, zero, mu[1]
            A1 = mat(mat(Q1, Mm), Q1.T)
            if ctx.mode == 'sym':
                stubs.register('eigh', A1, (np.array(mu, dtype=object), Q1))
            X[1, p] = A1
        for d in range(2, D):
            for i in range(n):
                for j in range(n):
                    X[d, p, i, j] = X[d, p, j, i] if j < i else ctx.var('A%d_%d[%d,%d]' % (d, p, i, j))
    A = mk_utpm(ctx, algopy, X)
    l, Q = algopy.eigh(A)
    ld, Qd = plain(l.data), plain(Q.data)
    for p in range(P):
        Qc, Ac = coefs(Qd, p), coefs(X, p)
        Lc = []
        for d in range(D):
            Lm = np.empty((n, n), dtype=object)
            for i in range(n):
                for j in range(n):
                    Lm[i, j] = ld[d, p, i] if i == j else zero
            Lc.append(Lm)
        QLQt = ps_matmul(ps_matmul(Qc, Lc, D), tr(Qc), D)
        QtQ = ps_matmul(tr(Qc), Qc, D)
        I = eye_series(n, D, ctx)
        for d in range(D):
            ctx.eq(QLQt[d], Ac[d], 'Q diag(lam) Qt==A order %d dir %d (repeated lambda_0)' % (d, p))
            ctx.eq(QtQ[d], I[d], 'QtQ==I order %d dir %d (repeated lambda_0)' % (d, p))
        ctx.eq(ld[0, p, 0], ld[0, p, 1], 'lambda_0 repeated')
        if D > 1:
            ctx.eq(ld[1, p], np.array(mus[p], dtype=object), 'first-order eigenvalues are the eigenvalues of A_1 in ascending order')


def _diagm(ctx, vals):
    n = len(vals)
    zero = 0.0 if ctx.mode == 'float' else S.const(0)
    M = np.empty((n, n), dtype=object)
    for i in range(n):
        for j in range(n):
            M[i, j] = vals[i] if i == j else zero
    return M


def _eigh_obligations(ctx, X, ld, Qd, D, P, n, what):
    zero = 0.0 if ctx.mode == 'float' else S.const(0)
    for p in range(P):
        Qc, Ac = coefs(Qd, p), coefs(X, p)
        Lc = [_diagm(ctx, [ld[d, p, i] for i in range(n)]) for d in range(D)]
        QLQt = ps_matmul(ps_matmul(Qc, Lc, D), tr(Qc), D)
        QtQ = ps_matmul(tr(Qc), Qc, D)
        I = eye_series(n, D, ctx)
        for d in range(D):
            ctx.eq(QLQt[d], Ac[d], 'Q diag(lam) Qt==A order %d dir %d (%s)' % (d, p, what))
            ctx.eq(QtQ[d], I[d], 'QtQ==I order %d dir %d (%s)' % (d, p, what))


def h_eigh_split_late(ctx, D, P, k=2, n=2):
    """n x n (n = 2, 3), A(t) = lam0 I + t lam1 I + ... + t^k Qk diag(nu) Qk^T + t^(k+1) A_(k+1) + ...: ONE
    eigenvalue of multiplicity n at the orders 0 .. k-1, splitting completely at order k.  The inner
    numpy.linalg.eigh calls see lam_j I and then a block *computed* from the input that the solver
    proves equal to the constructed A_k."""
    algopy = symx.load_algopy()
    X = np.empty((D, P, n, n), dtype=object)
    one = 1.0 if ctx.mode == 'float' else S.const(1)
    nus = {}
    for p in range(P):
        I2 = _diagm(ctx, [one] * n)
        for d in range(min(k, D)):
            lam = ctx.var('lam%d_%d' % (d, p))
            Ad = _diagm(ctx, [lam] * n)
            if ctx.mode == 'sym':
                stubs.register('eigh', Ad, (np.array([lam] * n, dtype=object), I2))
            X[d, p] = Ad
        if D > k:
            Q2 = rot2(ctx, 'q2_%d' % p) if n == 2 else rot3(ctx, 'q2_%d' % p)
            nu = [ctx.var('nu%d_%d' % (p, i)) for i in range(n)]
            for i in range(1, n):
                ctx.assume(nu[i] - nu[i - 1] > 1)
            nus[p] = nu
            A2 = mat(mat(Q2, _diagm(ctx, nu)), Q2.T)
            if ctx.mode == 'sym':
                stubs.register('eigh', A2, (np.array(nu, dtype=object), Q2))
            X[k, p] = A2
        for d in range(k + 1, D):
            for i in range(n):
                for j in range(n):
                    X[d, p, i, j] = X[d, p, j, i] if j < i else ctx.var('A%d_%d[%d,%d]' % (d, p, i, j))
    A = mk_utpm(ctx, algopy, X)
    l, Q = algopy.eigh(A)
    ld, Qd = plain(l.data), plain(Q.data)
    _eigh_obligations(ctx, X, ld, Qd, D, P, n, 'eigenvalue of multiplicity %d at orders 0..%d' % (n, k - 1))
    for p in range(P):
        for d in range(min(k, D)):
            for i in range(1, n):
                ctx.eq(ld[d, p, 0], ld[d, p, i], 'lambda_%d repeated' % d)
        if D > k:
            ctx.eq(ld[k, p], np.array(nus[p], dtype=object), 'order-%d eigenvalues are the eigenvalues of A_%d in ascending order' % (k, k))
    ctx.eq(plain(A.data), X, 'input unchanged')


def h_eigh_nested_concrete(ctx, D, lam_orders, seed):
    """a repeated eigenvalue INSIDE a 4 x 4 matrix that stays repeated for some orders and splits
    later, with a rotation that varies with t: A(t) = V(t)^T diag(lam(t)) V(t).  Beyond the symbolic
    bounds (section 7 of DESIGN.md); concrete matrices, decided on the float build:
    A Q = Q diag(l), Q^T Q = I, Q diag(l) Q^T = A modulo t^D to 1e-8."""
    algopy = symx.load_algopy()
    UTPM = algopy.UTPM
    if ctx.mode == 'sym':
        ctx.fact(True, 'concrete matrices: decided on the float build')
        ctx.eq(S.const(0), S.const(0), 'eigh of nested repeated eigenvalues')
        return
    rng = np.random.RandomState(seed)
    N, P = 4, 1
    Lam = UTPM(np.zeros((D, P, N, N)))
    for d, diag in enumerate(lam_orders):
        if d < D:
            Lam.data[d, 0] = np.diag(np.array(diag, dtype=float))
    V, _ = UTPM.qr(UTPM(0.3 * rng.rand(D, P, N, N) + np.eye(N)))
    A = UTPM.dot(UTPM.dot(V.T, Lam), V)
    A0 = A.data.copy()
    l, Q = algopy.eigh(A)
    conv = lambda X, Y, d: sum(X[k, 0].dot(Y[d - k, 0]) for k in range(d + 1))
    Qt = Q.data.transpose(0, 1, 3, 2)
    for d in range(D):
        e1 = np.abs(conv(Qt, Q.data, d) - (np.eye(N) if d == 0 else 0)).max()
        QL = sum(Q.data[k, 0] * l.data[d - k, 0][None, :] for k in range(d + 1))
        e2 = np.abs(conv(A0, Q.data, d) - QL).max()
        ctx.fact(e1 < 1e-8, 'Q^T Q == I at order %d (residual %.2e)' % (d, e1))
        ctx.fact(e2 < 1e-8, 'A Q == Q diag(l) at order %d (residual %.2e)' % (d, e2))
    ctx.fact(np.array_equal(A.data, A0), 'operand unchanged')


def h_eigh_pair3(ctx, D, P, where='low', fixed_Q0=None):
    """3x3 with a repeated PAIR inside: A0 = Q0 diag(l, l, l3) Q0^T (where='low', l3 > l) or
    diag(l1, l, l) (where='high'); A1 = Q0 M Q0^T with the 2x2 block of M that belongs to the pair
    equal to R diag(mu) R^T (mu distinct), everything else arbitrary.  numpy.linalg.eigh is first
    called on A0 (registered factors: any orthonormal basis of the eigenplane, Q0 is a generic
    rotation) and then on the block (Q0^T A1 Q0)[pair, pair], which the code computes and the solver
    proves equal to R diag(mu) R^T."""
    algopy = symx.load_algopy()
    n = 3
    pair = (0, 1) if where == 'low' else (1, 2)
    other = 2 if where == 'low' else 0
    X = np.empty((D, P, n, n), dtype=object)
    for p in range(P):
        Q0 = rot3(ctx, 'p%d' % p, fixed=fixed_Q0)
        l, lo = ctx.var('l_%d' % p), ctx.var('lo_%d' % p)
        if where == 'low':
            ctx.assume(lo - l > 1)
            lam = [l, l, lo]
        else:
            ctx.assume(l - lo > 1)
            lam = [lo, l, l]
        A0 = mat(mat(Q0, _diagm(ctx, lam)), Q0.T)
        if ctx.mode == 'sym':
            stubs.register('eigh', A0, (np.array(lam, dtype=object), Q0))
        X[0, p] = A0
        if D > 1:
            R = rot2(ctx, 'r%d' % p)
            mu = [ctx.var('mu%d_%d' % (p, i)) for i in range(2)]
            ctx.assume(mu[1] - mu[0] > 1)
            B = mat(mat(R, _diagm(ctx, mu)), R.T)
            if ctx.mode == 'sym':
                stubs.register('eigh', B, (np.array(mu, dtype=object), R))
            M = np.empty((n, n), dtype=object)
            for a_, i in enumerate(pair):
                for b_, j in enumerate(pair):
                    M[i, j] = B[a_, b_]
            for i in pair:
                M[i, other] = M[other, i] = ctx.var('m%d_%d' % (p, i))
            M[other, other] = ctx.var('mo_%d' % p)
            X[1, p] = mat(mat(Q0, M), Q0.T)
        for d in range(2, D):
            for i in range(n):
                for j in range(n):
                    X[d, p, i, j] = X[d, p, j, i] if j < i else ctx.var('A%d_%d[%d,%d]' % (d, p, i, j))
    A = mk_utpm(ctx, algopy, X)
    l, Q = algopy.eigh(A)
    ld, Qd = plain(l.data), plain(Q.data)
    _eigh_obligations(ctx, X, ld, Qd, D, P, n, 'repeated pair inside a 3x3 matrix')
    for p in range(P):
        ctx.eq(ld[0, p, pair[0]], ld[0, p, pair[1]], 'lambda_0 of the pair repeated')
    ctx.eq(plain(A.data), X, 'input unchanged')


def h_eigh1_out_reused(ctx, D):
    """UTPM.eigh1(A, out=(L, Q)) with buffers that hold the result of an earlier call (a matrix
    with another block structure): same result as with fresh buffers"""
    from .c11 import _mixed_eigh_input
    algopy = symx.load_algopy()
    UTPM = algopy.UTPM
    X = _mixed_eigh_input(ctx, D)          # direction 0: repeated eigenvalue, direction 1: distinct
    Xs = X[:, ::-1].copy()                 # the directions swapped
    L0, Q0, b0 = UTPM.eigh1(mk_utpm(ctx, algopy, X))
    L, Q, b = UTPM.eigh1(mk_utpm(ctx, algopy, Xs), out=(L0, Q0))
    Lf, Qf, bf = UTPM.eigh1(mk_utpm(ctx, algopy, Xs))
    ctx.fact(L is L0 and Q is Q0, 'the out= buffers are returned')
    ctx.eq(plain(L.data), plain(Lf.data), 'L with reused buffers == L with fresh buffers')
    ctx.eq(plain(Q.data), plain(Qf.data), 'Q with reused buffers == Q with fresh buffers')


def h_svd(ctx, D, P):
    """2x2 SVD through the eigendecomposition of the Jordan-Wielandt matrix
    B = [[0, A], [A^T, 0]]: A0 = U0 diag(s) V0^T, s1 > s2 > 0"""
    algopy = symx.load_algopy()
    n = 2
    zero = 0.0 if ctx.mode == 'float' else S.const(0)
    A0s = []
    for p in range(P):
        U0 = rot2(ctx, 'U%d' % p)
        V0 = rot2(ctx, 'V%d' % p)
        s1, s2 = ctx.var('s%d_1' % p), ctx.var('s%d_2' % p)
        ctx.assume(s2 > 1)
        ctx.assume(s1 - s2 > 1)
        Sm = np.empty((n, n), dtype=object)
        Sm[0, 0], Sm[0, 1], Sm[1, 0], Sm[1, 1] = s1, zero, zero, s2
        A0 = mat(mat(U0, Sm), V0.T)
        A0s.append(A0)
        if ctx.mode == 'sym':
            # eigen-decomposition of B0: eigenvalues ascending (-s1, -s2, s2, s1),
            # eigenvectors (u_i; -+ v_i)/sqrt(2)
            B0 = np.empty((4, 4), dtype=object)
            B0[...] = zero
            B0[:2, 2:] = A0
            B0[2:, :2] = A0.T
            h = S.kappa('sqrt2') / 2
            Qb = np.empty((4, 4), dtype=object)
            for col, (i, sg) in enumerate([(0, -1), (1, -1), (1, 1), (0, 1)]):
                for r in range(2):
                    Qb[r, col] = U0[r, i] * h
                    Qb[2 + r, col] = V0[r, i] * h * sg
            stubs.register('eigh', B0, (np.array([-s1, -s2, s2, s1], dtype=object), Qb))
    X = build_input(ctx, A0s, D, (n, n))
    A = mk_utpm(ctx, algopy, X)
    if ctx.mode == 'sym':
        stubs.ALLOW_ORTHONORMAL_QR[0] = True
    try:
        U, s, Vv = algopy.svd(A)
    finally:
        stubs.ALLOW_ORTHONORMAL_QR[0] = False
    Ud, sd, Vd = plain(U.data), plain(s.data), plain(Vv.data)
    ctx.fact(Ud.shape == (D, P, 2, 2) and sd.shape == (D, P, 2) and Vd.shape == (D, P, 2, 2), 'shapes')
    for p in range(P):
        Uc, Vc, Ac = coefs(Ud, p), coefs(Vd, p), coefs(X, p)
        Sc = []
        for d in range(D):
            Sm = np.empty((n, n), dtype=object)
            Sm[0, 0], Sm[0, 1], Sm[1, 0], Sm[1, 1] = sd[d, p, 0], zero, zero, sd[d, p, 1]
            Sc.append(Sm)
        USVt = ps_matmul(ps_matmul(Uc, Sc, D), tr(Vc), D)
        UtU = ps_matmul(tr(Uc), Uc, D)
        VtV = ps_matmul(tr(Vc), Vc, D)
        I = eye_series(n, D, ctx)
        for d in range(D):
            ctx.eq(USVt[d], Ac[d], 'U diag(s) Vt == A order %d dir %d' % (d, p))
            ctx.eq(UtU[d], I[d], 'UtU == I order %d dir %d' % (d, p))
            ctx.eq(VtV[d], I[d], 'VtV == I order %d dir %d' % (d, p))
        if ctx.mode == 'sym':
            ctx.holds(S.lift(sd[0, p, 0]) > S.lift(sd[0, p, 1]), 's_0 descending dir %d' % p)
            ctx.holds(S.lift(sd[0, p, 1]) > 0, 's_0 positive dir %d' % p)
        else:
            ctx.fact(sd[0, p, 0] > sd[0, p, 1] > 0, 's_0 descending positive')
    ctx.eq(plain(A.data), X, 'input unchanged')


def svd_base(ctx, M, N, tag, fixed=False):
    """zeroth coefficient A0 = U0 S V0^T (s1 > s2 > 0) of shape 2x2, 2x3 or 3x2 together with the
    registrations UTPM.svd needs: eigh of the Jordan-Wielandt matrix [[0, A0], [A0^T, 0]] --
    eigenvalues (-s1, -s2, [0,] s2, s1), eigenvectors (u_i; -+v_i)/sqrt(2) and (0; v_3) resp.
    (u_3; 0) -- and, for the 3x3 factor, scipy.linalg.qr of its first two columns"""
    zero = 0.0 if ctx.mode == 'float' else S.const(0)
    one = 1.0 if ctx.mode == 'float' else S.const(1)
    fx = ('1/2', '-1/3', '1/5') if fixed else None
    U0 = rot2(ctx, 'U' + tag) if M == 2 else rot3(ctx, 'U' + tag, fixed=fx)
    V0 = rot2(ctx, 'V' + tag) if N == 2 else rot3(ctx, 'V' + tag, fixed=fx)
    s1, s2 = ctx.var('s%s_1' % tag), ctx.var('s%s_2' % tag)
    ctx.assume(s2 > 1)
    ctx.assume(s1 - s2 > 1)
    Sm = np.empty((M, N), dtype=object)
    Sm[...] = zero
    Sm[0, 0], Sm[1, 1] = s1, s2
    A0 = mat(mat(U0, Sm), V0.T)
    if ctx.mode == 'sym':
        T = M + N
        B0 = np.empty((T, T), dtype=object)
        B0[...] = zero
        B0[:M, M:] = A0
        B0[M:, :M] = A0.T
        h = S.kappa('sqrt2') / 2
        Qb = np.empty((T, T), dtype=object)
        Qb[...] = zero
        for col, (i, sg) in [(0, (0, -1)), (1, (1, -1)), (T - 2, (1, 1)), (T - 1, (0, 1))]:
            for r in range(M):
                Qb[r, col] = U0[r, i] * h
            for r in range(N):
                Qb[M + r, col] = V0[r, i] * h * sg
        lam = [-s1, -s2, s2, s1]
        if T == 5:
            lam = [-s1, -s2, zero, s2, s1]
            if N == 3:
                for r in range(N):
                    Qb[M + r, 2] = V0[r, 2]
            else:
                for r in range(M):
                    Qb[r, 2] = U0[r, 2]
            # the completion: scipy.linalg.qr of the first two columns of the 3x3 factor
            W3 = V0 if N == 3 else U0
            Rf = np.empty((3, 2), dtype=object)
            Rf[...] = zero
            Rf[0, 0] = Rf[1, 1] = one
            stubs.register('qr', W3[:, :2].copy(), (W3, Rf))
        stubs.register('eigh', B0, (np.array(lam, dtype=object), Qb))
    return A0


def h_svd_rect(ctx, M, N, D, P, fixed=False):
    """rectangular SVD (2x3 wide, 3x2 tall): A0 = U0 [diag(s) 0] V0^T resp. U0 [diag(s); 0] V0^T.
    UTPM.svd factorises B = [[0, A], [A^T, 0]] ((M+N) x (M+N)) with eigh -- eigenvalues
    (-s1, -s2, 0, s2, s1), eigenvectors (u_i; -+v_i)/sqrt(2) and (0; v_3) resp. (u_3; 0) -- and
    completes the larger orthogonal factor with qr_full of its first two columns.
    fixed: the 3x3 rotation is one concrete rational rotation (everything else symbolic)"""
    algopy = symx.load_algopy()
    K = 2
    assert (M, N) in ((2, 3), (3, 2))
    zero = 0.0 if ctx.mode == 'float' else S.const(0)
    one = 1.0 if ctx.mode == 'float' else S.const(1)
    A0s = [svd_base(ctx, M, N, '%d' % p, fixed) for p in range(P)]
    X = build_input(ctx, A0s, D, (M, N))
    A = mk_utpm(ctx, algopy, X)
    if ctx.mode == 'sym':
        stubs.ALLOW_ORTHONORMAL_QR[0] = True
    try:
        U, s, Vv = algopy.svd(A)
    finally:
        stubs.ALLOW_ORTHONORMAL_QR[0] = False
    Ud, sd, Vd = plain(U.data), plain(s.data), plain(Vv.data)
    ctx.fact(Ud.shape == (D, P, M, M) and sd.shape == (D, P, K) and Vd.shape == (D, P, N, N), 'shapes')
    for p in range(P):
        Uc, Vc, Ac = coefs(Ud, p), coefs(Vd, p), coefs(X, p)
        Sc = []
        for d in range(D):
            Sm = np.empty((M, N), dtype=object)
            Sm[...] = zero
            Sm[0, 0], Sm[1, 1] = sd[d, p, 0], sd[d, p, 1]
            Sc.append(Sm)
        USVt = ps_matmul(ps_matmul(Uc, Sc, D), tr(Vc), D)
        UtU = ps_matmul(tr(Uc), Uc, D)
        VtV = ps_matmul(tr(Vc), Vc, D)
        for d in range(D):
            ctx.eq(USVt[d], Ac[d], 'U diag(s) Vt == A order %d dir %d (%dx%d)' % (d, p, M, N))
            ctx.eq(UtU[d], eye_series(M, D, ctx)[d], 'UtU == I order %d dir %d (%dx%d)' % (d, p, M, N))
            ctx.eq(VtV[d], eye_series(N, D, ctx)[d], 'VtV == I order %d dir %d (%dx%d)' % (d, p, M, N))
        if ctx.mode == 'sym':
            ctx.holds(S.lift(sd[0, p, 0]) > S.lift(sd[0, p, 1]), 's_0 descending dir %d' % p)
            ctx.holds(S.lift(sd[0, p, 1]) > 0, 's_0 positive dir %d' % p)
        else:
            ctx.fact(sd[0, p, 0] > sd[0, p, 1] > 0, 's_0 descending positive')
    ctx.eq(plain(A.data), X, 'input unchanged')


def h_eig(ctx, n, D, P, cplx1=False, cplx0=False):
    """general eigendecomposition, D <= 2, real distinct eigenvalues; cplx1: the first-order
    coefficient is complex while A_0 is real"""
    algopy = symx.load_algopy()
    A0s = []
    for p in range(P):
        if cplx0 == 'hermitian':
            # A(t) Hermitian: unitary Q0 = R(u) diag(1, e^{i phi}) with e^{i phi} rational in w
            R = rot2(ctx, 'h%d' % p)
            w = ctx.var('w%d' % p)
            one = 1.0 if ctx.mode == 'float' else S.const(1)
            cphi, sphi = (one - w * w) / (one + w * w), 2 * w / (one + w * w)
            ph = complex(cphi, sphi) if ctx.mode == 'float' else S.SymC(cphi, sphi)
            Q0 = np.empty((n, n), dtype=object)
            Q0[0, 0], Q0[1, 0] = R[0, 0] + 0 * ph, R[1, 0] + 0 * ph
            Q0[0, 1], Q0[1, 1] = R[0, 1] * ph, R[1, 1] * ph
            det = Q0[0, 0] * Q0[1, 1] - Q0[0, 1] * Q0[1, 0]
        elif cplx0:
            # complex A_0 with a real spectrum and complex eigenvectors
            Q0 = np.empty((n, n), dtype=object)
            for idx in np.ndindex(n, n):
                Q0[idx] = ctx.cvar('Q%d%s' % (p, list(idx)))
            det = Q0[0, 0] * Q0[1, 1] - Q0[0, 1] * Q0[1, 0]
            if ctx.mode == 'sym':
                ctx.assume(det.re * det.re + det.im * det.im != 0)
            else:
                ctx.assume(abs(det) > 1e-2)
        else:
            Q0 = V(ctx, 'Q%d' % p, (n, n))
            det = Q0[0, 0] * Q0[1, 1] - Q0[0, 1] * Q0[1, 0]
            ctx.assume(det != 0)
        lam = [ctx.var('lam%d_%d' % (p, i)) for i in range(n)]
        ctx.assume(lam[0] != lam[1])
        Lm = np.empty((n, n), dtype=object)
        for i in range(n):
            for j in range(n):
                Lm[i, j] = lam[i] if i == j else (0.0 if ctx.mode == 'float' else S.const(0))
        if ctx.mode == 'sym':
            Qi = npx.exact_inv(Q0)
        else:
            Qi = np.linalg.inv(np.array(Q0.tolist(), dtype=complex if cplx0 else float))
        A0 = mat(mat(Q0, Lm), Qi)
        if ctx.mode == 'sym':
            stubs.register('eig', A0, (np.array(lam, dtype=object), Q0))
        A0s.append(A0)
    cplx = cplx1 or cplx0
    X = build_input(ctx, A0s, D, (n, n), cplx=cplx)
    if cplx0 == 'hermitian':
        for d in range(1, D):
            for p in range(P):
                a, b, c_, e = ctx.var('ha%d_%d' % (d, p)), ctx.var('hb%d_%d' % (d, p)), ctx.var('hc%d_%d' % (d, p)), ctx.var('he%d_%d' % (d, p))
                mk = (lambda re, im: complex(re, im)) if ctx.mode == 'float' else (lambda re, im: S.SymC(S.lift(re), S.lift(im)))
                X[d, p, 0, 0], X[d, p, 1, 1] = mk(a, 0), mk(e, 0)
                X[d, p, 0, 1], X[d, p, 1, 0] = mk(b, c_), mk(b, -c_)
    if cplx and ctx.mode == 'float':
        X = np.array(X.tolist(), dtype=complex)
    A = mk_utpm(ctx, algopy, X, complex) if (cplx and ctx.mode == 'sym') else mk_utpm(ctx, algopy, X)
    l, Q = algopy.eig(A)
    ld, Qd = plain(l.data), plain(Q.data)
    for p in range(P):
        Qc, Ac = coefs(Qd, p), coefs(X, p)
        Lc = []
        for d in range(D):
            Lm = np.empty((n, n), dtype=object)
            for i in range(n):
                for j in range(n):
                    Lm[i, j] = ld[d, p, i] if i == j else (0.0 if ctx.mode == 'float' else S.const(0))
            Lc.append(Lm)
        AQ = ps_matmul(Ac, Qc, D)
        QL = ps_matmul(Qc, Lc, D)
        for d in range(D):
            ctx.eq(AQ[d], QL[d], 'AQ==Q diag(lam) order %d dir %d' % (d, p))
    ctx.eq(plain(A.data), X, 'input unchanged')


def units(tier, seed):
    out = []
    opts = {'property': PROP, 'path_budget': 200, 'validate_paths': 4}

    def add(name, func, o=None, **kw):
        oo = dict(opts)
        oo.update(o or {})
        out.append(Unit('C08/' + name, 'symx.props.c08', func, kw, oo))

    Dq = 3 if tier == 'quick' else 4
    for (M, N) in [(2, 2), (3, 2), (2, 3)] + ([(3, 3)] if tier != 'quick' else []):
        for sigma in (1, -1):
            D = Dq if (M, N) != (3, 3) else 3
            add('qr/%dx%d/D%d,P1,sigma%d' % (M, N, D, sigma), 'h_qr', M=M, N=N, D=D, P=1, sigma=sigma)
        Dp = 2 if (tier == 'quick' or (M, N) == (3, 3)) else 3
        add('qr/%dx%d/D%d,P2' % (M, N, Dp), 'h_qr', M=M, N=N, D=Dp, P=2)
    for (M, N) in [(2, 2), (3, 2)]:
        add('qr_full/%dx%d/D%d,P1' % (M, N, Dq), 'h_qr', M=M, N=N, D=Dq, P=1, full=True)
        add('qr_full/%dx%d/D2,P2' % (M, N), 'h_qr', M=M, N=N, D=2, P=2, full=True, sigma=-1)
    for n in (2, 3):
        add('cholesky/%dx%d/D%d,P1' % (n, n, Dq), 'h_cholesky', n=n, D=Dq, P=1)
        add('cholesky/%dx%d/D%d,P2' % (n, n, 2 if n == 3 else 3), 'h_cholesky', n=n, D=2 if n == 3 else 3, P=2)
    for variant in ('lu', 'lu2', 'lu_factor'):
        add('%s/2x2/D%d,P2' % (variant, Dq), 'h_lu', n=2, D=Dq, P=2, variant=variant)
        add('%s/3x3/D%d,P1' % (variant, 3 if tier != 'quick' else 2), 'h_lu', n=3, D=3 if tier != 'quick' else 2, P=1, variant=variant)
        # the order-d residual is a convolution over 1..d-1: order 3 is the first with two different terms
        add('%s/2x2/D%d,P1' % (variant, 4 if tier == 'quick' else 6), 'h_lu', n=2, D=4 if tier == 'quick' else 6, P=1, variant=variant)
    for sigma in (1, -1):
        add('eigh/2x2/D%d,P1,sigma%d' % (Dq, sigma), 'h_eigh', n=2, D=Dq, P=1, sigma=sigma)
    add('eigh/2x2/D3,P2', 'h_eigh', n=2, D=3, P=2)
    add('eigh/3x3/D2,P1', 'h_eigh', n=3, D=2, P=1)
    add('eigh/2x2 eigenvalues 2**30 + O(1), gap > 1/D3,P1', 'h_eigh', o={'float_tol': 1e-5, 'exact_eval': True}, n=2, D=3, P=1, offset=30)
    add('eigh/2x2/epsilon=1e-13/D3,P1', 'h_eigh', o={'float_tol': 1e-5}, n=2, D=3, P=1, epsilon='1/10000000000000')
    if tier != 'quick':
        add('eigh/2x2/D5,P1', 'h_eigh', n=2, D=5, P=1)
        add('eigh/3x3/D2,P2', 'h_eigh', n=3, D=2, P=2)
    add('eigh/2x2 repeated eigenvalue, split at order 1/D3,P1', 'h_eigh_repeated', D=3, P=1)
    add('eigh/2x2 repeated eigenvalue, split at order 1/D2,P2', 'h_eigh_repeated', D=2, P=2)
    add('eigh1/out= buffers reused for a matrix with another block structure/D2', 'h_eigh1_out_reused', o={'validate_values': False}, D=2)
    add('eigh/2x2 eigenvalue repeated at orders 0 and 1, split at order 2/D3,P1', 'h_eigh_split_late', D=3, P=1)
    add('eigh/2x2 eigenvalue repeated at orders 0..2, split at order 3/D4,P1', 'h_eigh_split_late', D=4, P=1, k=3)
    add('eigh/2x2 eigenvalue repeated at orders 0 and 1, split at order 2/D5,P1', 'h_eigh_split_late', D=5, P=1, k=2)
    add('eigh/3x3 triple eigenvalue, split at order 1/D2,P1', 'h_eigh_split_late', D=2, P=1, k=1, n=3)
    add('eigh/3x3 triple eigenvalue at orders 0 and 1, split at order 2/D3,P1', 'h_eigh_split_late', D=3, P=1, k=2, n=3)
    if tier != 'quick':
        add('eigh/2x2 eigenvalue repeated at orders 0..2, split at order 3/D5,P1', 'h_eigh_split_late', D=5, P=1, k=3)
        add('eigh/2x2 eigenvalue repeated at orders 0..3, split at order 4/D5,P1', 'h_eigh_split_late', D=5, P=1, k=4)
        add('eigh/2x2 eigenvalue repeated at every order/D4,P2', 'h_eigh_split_late', D=4, P=2, k=4)
    for nm, lo in (('triple eigenvalue at orders 0 and 1, split at order 2', [[2, 2, 2, 5], [1, 1, 1, 0], [1, 3, 7, 1]]),
                   ('pair at order 0, split at order 1, next to distinct eigenvalues', [[2, 2, 4, 5], [1, 3, 1, 0], [1, 3, 7, 1]]),
                   ('triple splitting into pair + single at order 1, pair at order 2', [[2, 2, 2, 5], [1, 1, 3, 0], [1, 4, 7, 1]])):
        add('eigh/4x4, %s/D5 (float-decided, concrete matrices)' % nm, 'h_eigh_nested_concrete', D=5, lam_orders=lo, seed=7)
    add('eigh/3x3 repeated pair (lower), split at order 1/D2,P1', 'h_eigh_pair3', D=2, P=1, where='low')
    add('eigh/3x3 repeated pair (upper), split at order 1/D2,P1', 'h_eigh_pair3', D=2, P=1, where='high')
    # (order 3 with a symbolic rotation Q0 exceeds the time limit: one concrete rational rotation, everything else symbolic)
    if tier != 'quick':
        add('eigh/3x3 repeated pair (lower), split at order 1, concrete Q0/D3,P1', 'h_eigh_pair3', D=3, P=1, where='low', fixed_Q0=('1/2', '1/3', '-1/5'))
        add('eigh/3x3 repeated pair (upper), split at order 1, concrete Q0/D3,P1', 'h_eigh_pair3', D=3, P=1, where='high', fixed_Q0=('-2/3', '1/4', '3/5'))
        add('eigh/3x3 repeated pair (lower), split at order 1/D2,P2', 'h_eigh_pair3', D=2, P=2, where='low')
        add('eigh/2x2 eigenvalue repeated at orders 0 and 1, split at order 2/D4,P1', 'h_eigh_split_late', D=4, P=1)
        add('eigh/2x2 eigenvalue repeated at orders 0 and 1, split at order 2/D5,P1', 'h_eigh_split_late', D=5, P=1)
        add('eigh/2x2 eigenvalue repeated at orders 0 and 1, split at order 2/D3,P2', 'h_eigh_split_late', D=3, P=2)
    if tier != 'quick':
        add('eigh/2x2 repeated eigenvalue, split at order 1/D4,P1', 'h_eigh_repeated', D=4, P=1)
    add('svd/2x2/D2,P1', 'h_svd', o={'crosscheck': False}, D=2, P=1)
    # rectangular: (M+N) x (M+N) Jordan-Wielandt matrix with the eigenvalue 0, completion of the 3x3 factor by qr_full
    for (M, N) in ((2, 3), (3, 2)):
        add('svd/%dx%d/D1,P2' % (M, N), 'h_svd_rect', o={'crosscheck': False}, M=M, N=N, D=1, P=2)
        add('svd/%dx%d, concrete 3x3 rotation/D2,P1' % (M, N), 'h_svd_rect', o={'crosscheck': False}, M=M, N=N, D=2, P=1, fixed=True)
        if tier != 'quick':
            add('svd/%dx%d/D2,P1' % (M, N), 'h_svd_rect', o={'unit_timeout': 1500, 'crosscheck': False, 'path_budget': 600}, M=M, N=N, D=2, P=1)
    if tier != 'quick':
        add('svd/2x2/D2,P2', 'h_svd', o={'unit_timeout': 1500, 'crosscheck': False, 'path_budget': 600}, D=2, P=2)
    # Fortran-ordered coefficient matrices (and single-column operands): the layout that LAPACK
    # wrappers with overwrite_a=True destroy; `input unchanged` is part of every harness
    # degenerate shapes: single column (both C- and Fortran-contiguous), single row, 1x1
    for (M_, N_) in [(2, 1), (3, 1), (1, 2), (1, 1)]:
        add('qr/%dx%d/D3,P2' % (M_, N_), 'h_qr', M=M_, N=N_, D=3, P=2)
    add('qr_full/2x1/D3,P1', 'h_qr', M=2, N=1, D=3, P=1, full=True)
    add('qr_full/3x1/D2,P2', 'h_qr', M=3, N=1, D=2, P=2, full=True)
    add('cholesky/1x1/D4,P2', 'h_cholesky', n=1, D=4, P=2)
    add('lu/1x1/D3,P2', 'h_lu', n=1, D=3, P=2, variant='lu')
    add('lu_factor/1x1/D3,P2', 'h_lu', n=1, D=3, P=2, variant='lu_factor')
    add('qr/2x2/epsilon=1e-40, last column of magnitude 1e-16/D2,P1', 'h_qr', o={'exact_eval': True}, M=2, N=2, D=2, P=1, epsilon='1/' + '1' + '0' * 40)
    add('qr/3x2/epsilon=1e-40, last column of magnitude 1e-16/D2,P1', 'h_qr', o={'exact_eval': True}, M=3, N=2, D=2, P=1, epsilon='1/' + '1' + '0' * 40)
    add('qr/3x3/epsilon=1e-40, last column of magnitude 1e-16/D2,P1', 'h_qr', o={'exact_eval': True}, M=3, N=3, D=2, P=1, epsilon='1/' + '1' + '0' * 40)
    W = {'dirty_out': True}
    add('qr/2x2/out= reused workspace/D3,P1', 'h_qr', o=W, M=2, N=2, D=3, P=1)
    add('qr/3x2/out= reused workspace/D2,P2', 'h_qr', o=W, M=3, N=2, D=2, P=2)
    add('qr/2x3/out= reused workspace/D2,P1', 'h_qr', o=W, M=2, N=3, D=2, P=1)
    add('qr_full/3x2/out= reused workspace/D2,P1', 'h_qr', o=W, M=3, N=2, D=2, P=1, full=True)
    add('cholesky/2x2/out= reused workspace/D3,P2', 'h_cholesky', o=W, n=2, D=3, P=2)
    add('eigh/2x2/out= reused workspace/D3,P1', 'h_eigh', o=W, n=2, D=3, P=1)
    F = {'layout': 'F'}
    add('qr/2x2/Fortran order/D2,P1', 'h_qr', o=F, M=2, N=2, D=2, P=1)
    add('qr/3x2/Fortran order/D2,P1', 'h_qr', o=F, M=3, N=2, D=2, P=1)
    add('qr_full/3x2/Fortran order/D2,P1', 'h_qr', o=F, M=3, N=2, D=2, P=1, full=True)
    add('qr_full/2x2/Fortran order/D2,P2', 'h_qr', o=F, M=2, N=2, D=2, P=2, full=True)
    add('cholesky/2x2/Fortran order/D2,P1', 'h_cholesky', o=F, n=2, D=2, P=1)
    add('eigh/2x2/Fortran order/D2,P1', 'h_eigh', o=F, n=2, D=2, P=1)
    for variant in ('lu', 'lu2', 'lu_factor'):
        add('%s/2x2/Fortran order/D2,P1' % variant, 'h_lu', o=F, n=2, D=2, P=1, variant=variant)
    add('eig/2x2/D2,P1', 'h_eig', o={'validate_values': False}, n=2, D=2, P=1)
    add('eig/2x2/D2,P2', 'h_eig', o={'validate_values': False}, n=2, D=2, P=2)
    add('eig/2x2 complex A0 with real spectrum/D2,P1', 'h_eig', o={'validate_values': False}, n=2, D=2, P=1, cplx0=True)
    add('eig/2x2 Hermitian A(t)/D2,P1', 'h_eig', o={'validate_values': False}, n=2, D=2, P=1, cplx0='hermitian')
    add('eig/2x2 real A0, complex A1/D2,P1', 'h_eig', o={'validate_values': False}, n=2, D=2, P=1, cplx1=True)
    return out
