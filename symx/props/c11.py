"""C11  Directions are propagated independently.

Every catalogued operation is executed on P directions carrying independent
symbols (including independent base points) and again on each direction alone;
the solver proves coefficient-wise equality.  Information flow is additionally
checked structurally: the term of direction p mentions no symbol of direction q."""
import re

import numpy as np

import symx
from .. import sym as S
from .. import ops as O
from ..runner import Unit

PROP = 'C11'
EXPLANATION = 'C11: y.data[:,p] of a P-direction run == the single-direction run on direction p, per operation.'
_DIR = re.compile(r'^a(\d+)\[(\d+), (\d+)')


def h_op(ctx, opname, D, P):
    algopy = symx.load_algopy()
    op = O.by_name()[opname]
    raw = [O.make_input(ctx, a, 'a%d' % k, D, P) for k, a in enumerate(op.args)]
    if 'neq' in op.tags:
        for idx in np.ndindex(*raw[0][0].shape):
            ctx.assume(raw[0][0][idx] != raw[1][0][idx])
    if 'distinct' in op.tags:
        z = raw[0][0]
        for p_ in range(z.shape[0]):
            for i in range(z.shape[1]):
                for j in range(i):
                    ctx.assume(z[p_, i] != z[p_, j])
    full = O.outputs(op.fn(algopy, *[O.wrap(ctx, algopy, a, r) for a, r in zip(op.args, raw)]))
    for p in range(P):
        single = []
        for a, r in zip(op.args, raw):
            single.append(O.wrap(ctx, algopy, a, r[:, p:p + 1] if a.kind == 'utpm' else r))
        one = O.outputs(op.fn(algopy, *single))
        ctx.fact(len(one) == len(full), 'same number of outputs')
        for k, (f, o) in enumerate(zip(full, one)):
            ctx.fact(f.shape[0] == o.shape[0] and f.shape[2:] == o.shape[2:], 'out%d shape %s vs %s' % (k, f.shape, o.shape))
            ctx.eq(f[:, p], o[:, 0], 'out%d[:,%d]' % (k, p))
            if ctx.mode == 'sym':
                sup = O.support(O.flat_syms(f[:, p]))
                leak = sorted(n for n in sup if _DIR.match(n) and op.args[int(_DIR.match(n).group(1))].kind == 'utpm'
                              and int(_DIR.match(n).group(3)) != p)
                ctx.fact(not leak, 'direction %d of out%d depends on other directions: %s' % (p, k, leak[:3]))


def h_reverse(ctx, pname, D, P):
    """reverse sweep: the adjoint of direction p of a P-direction sweep equals the
    single-direction sweep on direction p"""
    from .c03 import Namespace, make_consts, make_curve, get_prog, record, pullback_guard
    from .common import plain
    algopy = symx.load_algopy()
    prog = get_prog(pname)
    arg, X = make_curve(ctx, prog, 'x', D, P)
    A = Namespace(algopy, make_consts(ctx, prog))
    cg, fx, fy = record(ctx, algopy, A, prog, O.wrap(ctx, algopy, arg, X))
    Y = plain(fy.x.data)
    YB = np.empty(Y.shape, dtype=object)
    for idx in np.ndindex(*Y.shape):
        YB[idx] = ctx.var('ybar%s' % list(idx))
    if not pullback_guard(ctx, algopy, cg, [O.wrap(ctx, algopy, O.Arg('utpm', Y.shape[2:]), YB)]):
        return
    XB = plain(fx.xbar.data).copy()
    for p in range(P):
        cg1, fx1, fy1 = record(ctx, algopy, A, prog, O.wrap(ctx, algopy, arg, X[:, p:p + 1]))
        ctx.eq(plain(fy1.x.data)[:, 0], Y[:, p], 'forward value dir %d' % p)
        if not pullback_guard(ctx, algopy, cg1, [O.wrap(ctx, algopy, O.Arg('utpm', Y.shape[2:]), YB[:, p:p + 1])]):
            return
        ctx.eq(XB[:, p], plain(fx1.xbar.data)[:, 0], 'xbar dir %d' % p)
        if ctx.mode == 'sym':
            sup = O.support(O.flat_syms(XB[:, p]))
            leak = sorted(n for n in sup if re.match(r'^(x|ybar)\[(\d+), (\d+)', n) and int(re.match(r'^(x|ybar)\[(\d+), (\d+)', n).group(3)) != p)
            ctx.fact(not leak, 'adjoint of direction %d depends on other directions: %s' % (p, leak[:3]))


def h_jacobian_dirs(ctx, pname, D, P):
    """cg.jacobian of a Taylor-polynomial argument: direction p of the result equals
    the call on direction p alone"""
    from .c03 import Namespace, make_consts, get_prog, record
    from .c05 import make_value
    from .common import plain
    algopy = symx.load_algopy()
    prog = get_prog(pname)
    A = Namespace(algopy, make_consts(ctx, prog))
    rarg, R = make_value(ctx, prog, ('utpm', 1, 1), 'r')
    cg, fx, fy = record(ctx, algopy, A, prog, O.wrap(ctx, algopy, rarg, R))
    carg = O.Arg('utpm', prog.shape, prog.dom)
    C = O.make_input(ctx, carg, 'c', D, P)
    J = plain(cg.jacobian(O.wrap(ctx, algopy, carg, C)).data).copy()
    for p in range(P):
        Jp = plain(cg.jacobian(O.wrap(ctx, algopy, carg, C[:, p:p + 1])).data)
        ctx.eq(J[:, p], Jp[:, 0], 'jacobian(curve) dir %d' % p)


def h_floordiv_mixed(ctx, D, order=1, regular_first=False):
    """x // y with one direction needing the 0/0 treatment (a common zero of the given order at
    t = 0) and one regular direction"""
    from .common import mk_utpm, plain
    algopy = symx.load_algopy()
    P = 2
    X = O.make_input(ctx, O.Arg('utpm', ()), 'x', D, P)
    Y = O.make_input(ctx, O.Arg('utpm', ()), 'y', D, P)
    zero = S.const(0) if ctx.mode == 'sym' else 0.0
    pz, pr = (1, 0) if regular_first else (0, 1)
    for k in range(order):
        X[k, pz] = zero
        Y[k, pz] = zero
    # leading coefficients 2 + v with v > -1 (well above the 1e-8 threshold; every default float
    # point of the numeric fallback satisfies it)
    for (d_, p_) in ((order, pz), (0, pr)):
        v = Y[d_, p_]
        ctx.assume(v > -1)
        Y[d_, p_] = v + 2
    z = plain((mk_utpm(ctx, algopy, X) // mk_utpm(ctx, algopy, Y)).data)
    for p in range(P):
        zp = plain((mk_utpm(ctx, algopy, X[:, p:p + 1]) // mk_utpm(ctx, algopy, Y[:, p:p + 1])).data)
        ctx.eq(z[:, p], zp[:, 0], 'x // y direction %d' % p)


def _mixed_eigh_input(ctx, D):
    """2x2 symmetric input with P = 2: direction 0 has a repeated eigenvalue at its base point
    (A0 = lam0 I, splitting at order 1 through A1 = Q1 diag(mu) Q1^T), direction 1 has distinct
    eigenvalues (B0 = Qd diag(lam) Qd^T); all other coefficients arbitrary symmetric matrices"""
    from . import c08
    from .. import stubs
    P, n = 2, 2
    zero = S.const(0) if ctx.mode == 'sym' else 0.0
    one = S.const(1) if ctx.mode == 'sym' else 1.0
    X = np.empty((D, P, n, n), dtype=object)
    lam0 = ctx.var('lam0')
    A0 = np.empty((n, n), dtype=object)
    A0[0, 0], A0[0, 1], A0[1, 0], A0[1, 1] = lam0, zero, zero, lam0
    I2 = np.empty((n, n), dtype=object)
    I2[0, 0], I2[0, 1], I2[1, 0], I2[1, 1] = one, zero, zero, one
    Q1 = c08.rot2(ctx, 'q1')
    mu = [ctx.var('mu0'), ctx.var('mu1')]
    ctx.assume(mu[1] - mu[0] > 1)
    Mm = np.empty((n, n), dtype=object)
    Mm[0, 0], Mm[0, 1], Mm[1, 0], Mm[1, 1] = mu[0], zero, zero, mu[1]
    A1 = np.dot(np.dot(Q1, Mm), Q1.T)
    Qd = c08.rot2(ctx, 'qd')
    lam = [ctx.var('l0'), ctx.var('l1')]
    ctx.assume(lam[1] - lam[0] > 1)
    Lm = np.empty((n, n), dtype=object)
    Lm[0, 0], Lm[0, 1], Lm[1, 0], Lm[1, 1] = lam[0], zero, zero, lam[1]
    B0 = np.dot(np.dot(Qd, Lm), Qd.T)
    if ctx.mode == 'sym':
        stubs.register('eigh', A0, (np.array([lam0, lam0], dtype=object), I2))
        stubs.register('eigh', A1, (np.array(mu, dtype=object), Q1))
        stubs.register('eigh', B0, (np.array(lam, dtype=object), Qd))
    X[0, 0], X[0, 1] = A0, B0
    if D > 1:
        X[1, 0] = A1
    for d in range(D):
        for p in range(P):
            if (d, p) in ((0, 0), (1, 0), (0, 1)):
                continue
            for i in range(n):
                for j in range(n):
                    X[d, p, i, j] = X[d, p, j, i] if j < i else ctx.var('A%d_%d[%d,%d]' % (d, p, i, j))
    return X


def h_eigh1_pullback_mixed(ctx, D):
    """UTPM.eigh1 / UTPM.pb_eigh1 (the relaxed problem behind eigh) called directly with the mixed
    input above: the adjoint of each direction equals the one of that direction propagated alone"""
    from .common import plain, mk_utpm
    algopy = symx.load_algopy()
    UTPM = algopy.UTPM
    P, n = 2, 2
    X = _mixed_eigh_input(ctx, D)
    LB = np.empty((D, P, n, n), dtype=object)
    QB = np.empty((D, P, n, n), dtype=object)
    for idx in np.ndindex(D, P, n, n):
        LB[idx] = ctx.var('Lbar%s' % list(idx)) if idx[2] == idx[3] else (S.const(0) if ctx.mode == 'sym' else 0.0)
        QB[idx] = ctx.var('Qbar%s' % list(idx))
    A = mk_utpm(ctx, algopy, X)
    L, Q, b = UTPM.eigh1(A)
    ctx.fact([list(map(int, bb)) for bb in b] == [[0, 2], [0, 1, 2]], 'block structure per direction: %s' % ([list(map(int, bb)) for bb in b],))
    Abar = plain(UTPM.pb_eigh1(mk_utpm(ctx, algopy, LB), mk_utpm(ctx, algopy, QB), None, A, L, Q, b).data)
    for p in range(P):
        Ap = mk_utpm(ctx, algopy, X[:, p:p + 1])
        Lp, Qp, bp = UTPM.eigh1(Ap)
        ctx.eq(plain(Lp.data)[:, 0], plain(L.data)[:, p], 'eigh1 L dir %d' % p)
        ctx.eq(plain(Qp.data)[:, 0], plain(Q.data)[:, p], 'eigh1 Q dir %d' % p)
        Ab = plain(UTPM.pb_eigh1(mk_utpm(ctx, algopy, LB[:, p:p + 1]), mk_utpm(ctx, algopy, QB[:, p:p + 1]), None, Ap, Lp, Qp, bp).data)
        ctx.eq(Abar[:, p], Ab[:, 0], 'pb_eigh1: Abar of direction %d == Abar of that direction alone' % p)


def h_reverse_eigh_mixed(ctx, D):
    """reverse sweep through eigh: direction 0 has a repeated eigenvalue at its base point
    (splitting at order 1), direction 1 has distinct eigenvalues"""
    from .c03 import Namespace, record, pullback_guard
    from .. import programs as PR
    from .common import plain
    algopy = symx.load_algopy()
    P, n = 2, 2
    X = _mixed_eigh_input(ctx, D)
    prog = PR.by_name()['eigh(2x2)']
    consts = {}
    for nm, shp in prog.consts.items():
        C = np.empty(shp, dtype=object)
        for idx in np.ndindex(*shp):
            C[idx] = ctx.var('%s%s' % (nm, list(idx)))
        consts[nm] = npx_sarr(ctx, C)
    A = Namespace(algopy, consts)
    arg = O.Arg('utpm', (n, n))
    cg, fx, fy = record(ctx, algopy, A, prog, O.wrap(ctx, algopy, arg, X))
    Y = plain(fy.x.data)
    YB = np.empty(Y.shape, dtype=object)
    for idx in np.ndindex(*Y.shape):
        YB[idx] = ctx.var('ybar%s' % list(idx))
    if not pullback_guard(ctx, algopy, cg, [O.wrap(ctx, algopy, O.Arg('utpm', Y.shape[2:]), YB)]):
        return
    XB = plain(fx.xbar.data).copy()
    for p in range(P):
        cg1, fx1, fy1 = record(ctx, algopy, A, prog, O.wrap(ctx, algopy, arg, X[:, p:p + 1]))
        ctx.eq(plain(fy1.x.data)[:, 0], Y[:, p], 'forward value dir %d' % p)
        if not pullback_guard(ctx, algopy, cg1, [O.wrap(ctx, algopy, O.Arg('utpm', Y.shape[2:]), YB[:, p:p + 1])]):
            return
        ctx.eq(XB[:, p], plain(fx1.xbar.data)[:, 0], 'xbar dir %d' % p)


def h_qr_mixed_rank(ctx, D, shape=(2, 2)):
    """qr of two directions whose base points have different numerical rank (direction 0 regular,
    direction 1 with a zero trailing pivot): each direction equals its single-direction result"""
    from . import c08
    from .. import stubs
    from .common import mk_utpm, plain
    algopy = symx.load_algopy()
    M, N = shape
    zero = S.const(0) if ctx.mode == 'sym' else 0.0
    A0s = []
    for p in range(2):
        Q0 = c08.rot2(ctx, 'q%d' % p)
        R0 = c08.upper(ctx, 'R%d' % p, M, N)
        if p == 1:
            R0[M - 1, M - 1] = zero          # rank-deficient base point in this direction only
            for j in range(M, N):
                R0[M - 1, j] = zero
        A0 = np.dot(Q0, R0)
        if ctx.mode == 'sym':
            stubs.register('qr', A0[:, :M], (Q0, R0[:, :M]))
            stubs.register('qr', A0, (Q0, R0))
        A0s.append(A0)
    X = c08.build_input(ctx, A0s, D, (M, N))
    Q, R = algopy.qr(mk_utpm(ctx, algopy, X))
    Qd, Rd = plain(Q.data), plain(R.data)
    for p in range(2):
        Q1, R1 = algopy.qr(mk_utpm(ctx, algopy, X[:, p:p + 1]))
        # sign-invariant comparison (the factors are fixed up to the sign of each column / row pair)
        for d in range(D):
            full = sum(np.dot(Qd[c, p], Rd[d - c, p]) for c in range(d + 1))
            single = sum(np.dot(plain(Q1.data)[c, 0], plain(R1.data)[d - c, 0]) for c in range(d + 1))
            ctx.eq(full, single, 'Q R of direction %d, order %d: P=2 run == single-direction run' % (p, d))
            qq = sum(np.dot(Qd[c, p], Qd[d - c, p].T) for c in range(d + 1))
            qq1 = sum(np.dot(plain(Q1.data)[c, 0], plain(Q1.data)[d - c, 0].T) for c in range(d + 1))
            ctx.eq(qq, qq1, 'Q Qt of direction %d, order %d' % (p, d))
        if p == 0:
            for d in range(D):
                ctx.eq(sum(np.dot(Qd[c, 0], Rd[d - c, 0]) for c in range(d + 1)), X[d, 0], 'regular direction: Q R == A order %d' % d)


def h_qr_mixed_rank_reverse(ctx, D, shape=(2, 2)):
    """reverse sweep of qr with two directions of different numerical rank: the adjoint of each
    direction equals the adjoint computed for that direction alone"""
    from . import c08
    from .. import stubs
    from .common import mk_utpm, plain
    algopy = symx.load_algopy()
    M, N = shape
    K = min(M, N)
    zero = S.const(0) if ctx.mode == 'sym' else 0.0
    A0s = []
    for p in range(2):
        Q0 = c08.rot2(ctx, 'q%d' % p) if M == 2 else c08.rot3(ctx, 'q%d' % p)[:, :K]
        R0 = c08.upper(ctx, 'R%d' % p, K, N)
        if p == 1:
            R0[K - 1, K - 1] = zero
        A0 = np.dot(Q0, R0)
        if ctx.mode == 'sym':
            stubs.register('qr', A0, (Q0, R0))
        A0s.append(A0)
    X = c08.build_input(ctx, A0s, D, (M, N))
    QB = np.empty((D, 2, M, K), dtype=object)
    RB = np.empty((D, 2, K, N), dtype=object)
    for idx in np.ndindex(*QB.shape):
        QB[idx] = ctx.var('qb%s' % list(idx))
    for idx in np.ndindex(*RB.shape):
        RB[idx] = ctx.var('rb%s' % list(idx))

    def sweep(sl):
        A = mk_utpm(ctx, algopy, X[:, sl])
        Q, R = algopy.UTPM.qr(A)
        return plain(algopy.UTPM.pb_qr(mk_utpm(ctx, algopy, QB[:, sl]), mk_utpm(ctx, algopy, RB[:, sl]), A, Q, R).data)
    try:
        both = sweep(slice(0, 2))
    except Exception as e:
        ctx.fact(False, 'reverse sweep of qr with P=2 raised %s: %s' % (type(e).__name__, str(e)[:80]))
        return
    one = sweep(slice(0, 1))
    ctx.eq(both[:, 0], one[:, 0], 'adjoint of the regular direction: P=2 sweep == single-direction sweep')


def npx_sarr(ctx, C):
    from .. import npx
    if ctx.mode == 'sym':
        return npx.sarr(C, float)
    return np.array(C.tolist(), dtype=float).reshape(C.shape)


REV_PROGS = ['x*x', 'x/(1+x*x)', 'exp', 'buffer', 'dot(mat,mat)', 'dot(mat,vec)', 'outer', 'inv', 'solve', 'det', 'logdet',
             'sum(x*exp(x)/(1+x0*x1)+sin(x)*x[::-1])', 'prod', 'absolute']


def units(tier, seed):
    out = []
    for (D, P) in ([(3, 2)] if tier == 'quick' else [(5, 3), (8, 2), (3, 5)]):
        for op in O.catalogue():
            if 'c14only' in op.tags or 'c10only' in op.tags:
                continue
            if P >= 5 and op.group == 'kink':
                continue      # (one branch per element and direction: 2^10 .. 3^10 paths)
            out.append(Unit('C11/%s/D%d,P%d' % (op.name, D, P), 'symx.props.c11', 'h_op',
                            {'opname': op.name, 'D': D, 'P': P}, {'property': PROP, 'path_budget': 300}))
    for pn in ['x*x[::-1]', 'x[1:]*x[:-1]', 'exp(dot)']:
        out.append(Unit('C11/jacobian(Taylor argument)/%s/D2,P2' % pn, 'symx.props.c11', 'h_jacobian_dirs', {'pname': pn, 'D': 2, 'P': 2},
                        {'property': PROP}))
    out.append(Unit('C11/qr, rank-deficient base point in one direction only/D3', 'symx.props.c11', 'h_qr_mixed_rank', {'D': 3}, {'property': PROP, 'path_budget': 100}))
    out.append(Unit('C11/reverse/qr, rank-deficient base point in one direction only/D2', 'symx.props.c11', 'h_qr_mixed_rank_reverse', {'D': 2}, {'property': PROP, 'path_budget': 100, 'validate_values': False}))
    out.append(Unit('C11/reverse/qr 3x2, rank-deficient base point in one direction only/D2', 'symx.props.c11', 'h_qr_mixed_rank_reverse', {'D': 2, 'shape': (3, 2)}, {'property': PROP, 'path_budget': 100, 'validate_values': False}))
    out.append(Unit('C11/floordiv, double common zero in the second direction only/D5', 'symx.props.c11', 'h_floordiv_mixed', {'D': 5, 'order': 2, 'regular_first': True}, {'property': PROP}))
    out.append(Unit('C11/floordiv, double common zero in the first direction only/D4', 'symx.props.c11', 'h_floordiv_mixed', {'D': 4, 'order': 2}, {'property': PROP}))
    out.append(Unit('C11/floordiv, 0/0 in one direction only/D3', 'symx.props.c11', 'h_floordiv_mixed', {'D': 3}, {'property': PROP}))
    for Dq in (1, 2):
        out.append(Unit('C11/reverse/eigh1 + pb_eigh1, repeated eigenvalue in one direction only/D%d' % Dq, 'symx.props.c11', 'h_eigh1_pullback_mixed', {'D': Dq},
                        {'property': PROP, 'float_tol': 1e-6, 'validate_values': False}))     # (values depend on the sign convention of the eigenvectors)
    out.append(Unit('C11/reverse/eigh, repeated eigenvalue in one direction only/D2', 'symx.props.c11', 'h_reverse_eigh_mixed', {'D': 2},
                    {'property': PROP, 'float_tol': 1e-6}))
    for pn in REV_PROGS:
        out.append(Unit('C11/reverse/%s/D2,P2' % pn, 'symx.props.c11', 'h_reverse', {'pname': pn, 'D': 2, 'P': 2},
                        {'property': PROP, 'path_budget': 300, 'float_tol': 1e-6}))
        if tier != 'quick' and pn != 'absolute':
            out.append(Unit('C11/reverse/%s/D3,P3' % pn, 'symx.props.c11', 'h_reverse', {'pname': pn, 'D': 3, 'P': 3},
                            {'property': PROP, 'path_budget': 300, 'float_tol': 1e-6}))
    return out
