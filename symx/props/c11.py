"""C11  Directions are propagated independently.

Every catalogued operation is executed on P directions carrying independent
symbols (including independent base points) and again on each direction alone;
the solver proves coefficient-wise equality.  Information flow is additionally
checked structurally: the term of direction p mentions no symbol of direction q."""
import re

import numpy as np

import symx
from .. import sym as S
from .. import ops as O
from ..runner import Unit

PROP = 'C11'
EXPLANATION = 'C11: y.data[:,p] of a P-direction run == the single-direction run on direction p, per operation.'
_DIR = re.compile(r'^a(\d+)\[(\d+), (\d+)')


def h_op(ctx, opname, D, P):
    algopy = symx.load_algopy()
    op = O.by_name()[opname]
    raw = [O.make_input(ctx, a, 'a%d' % k, D, P) for k, a in enumerate(op.args)]
    if 'neq' in op.tags:
        for idx in np.ndindex(*raw[0][0].shape):
            ctx.assume(raw[0][0][idx] != raw[1][0][idx])
    full = O.outputs(op.fn(algopy, *[O.wrap(ctx, algopy, a, r) for a, r in zip(op.args, raw)]))
    for p in range(P):
        single = []
        for a, r in zip(op.args, raw):
            single.append(O.wrap(ctx, algopy, a, r[:, p:p + 1] if a.kind == 'utpm' else r))
        one = O.outputs(op.fn(algopy, *single))
        ctx.fact(len(one) == len(full), 'same number of outputs')
        for k, (f, o) in enumerate(zip(full, one)):
            ctx.fact(f.shape[0] == o.shape[0] and f.shape[2:] == o.shape[2:], 'out%d shape %s vs %s' % (k, f.shape, o.shape))
            ctx.eq(f[:, p], o[:, 0], 'out%d[:,%d]' % (k, p))
            if ctx.mode == 'sym':
                sup = O.support(O.flat_syms(f[:, p]))
                leak = sorted(n for n in sup if _DIR.match(n) and op.args[int(_DIR.match(n).group(1))].kind == 'utpm'
                              and int(_DIR.match(n).group(3)) != p)
                ctx.fact(not leak, 'direction %d of out%d depends on other directions: %s' % (p, k, leak[:3]))


def units(tier, seed):
    out = []
    D, P = (3, 2) if tier == 'quick' else (4, 3)
    for op in O.catalogue():
        out.append(Unit('C11/%s/D%d,P%d' % (op.name, D, P), 'symx.props.c11', 'h_op',
                        {'opname': op.name, 'D': D, 'P': P}, {'property': PROP}))
    return out
