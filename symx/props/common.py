"""helpers shared by the property modules"""
import math

import numpy as np

from .. import sym as S
from .. import npx
from ..lib import F


def mk_utpm(ctx, algopy, X, ld='infer'):
    """UTPM over X (object array of Sym in sym mode, float array in float mode)"""
    if ctx.mode == 'sym':
        return algopy.UTPM(npx.sarr(np.array(X, dtype=object), ld))
    X = np.asarray(X)
    if X.dtype == object:
        X = np.array(X.tolist(), dtype=complex if any(isinstance(e, complex) for e in X.ravel()) else float)
    X = X.copy()
    if ctx.opts.get('layout') == 'FULL_F':
        # the whole coefficient array in Fortran order (the D and P axes cannot be merged without a copy)
        return algopy.UTPM(np.asfortranarray(X))
    if ctx.opts.get('layout') == 'PVIEW' and X.ndim >= 2:
        # every second direction of a larger buffer (a non-contiguous direction axis)
        big = np.zeros((X.shape[0], 2 * X.shape[1]) + X.shape[2:], dtype=X.dtype)
        big[:, ::2] = X
        return algopy.UTPM(big[:, ::2])
    if ctx.opts.get('layout') == 'F' and X.ndim >= 4:
        # every coefficient matrix in Fortran order (what LAPACK wrappers may overwrite in place)
        X = np.ascontiguousarray(np.swapaxes(X, -1, -2)).swapaxes(-1, -2)
    return algopy.UTPM(X)


def mk_array(ctx, A, ld='infer'):
    """plain (constant) ndarray operand"""
    if ctx.mode == 'sym':
        return npx.sarr(np.array(A, dtype=object), ld)
    A = np.asarray(A)
    if A.dtype == object:
        A = np.array(A.tolist(), dtype=complex if any(isinstance(e, complex) for e in A.ravel()) else float)
    return A.copy()


def plain(a):
    """view any array as a plain ndarray (object or float)"""
    if isinstance(a, np.ndarray):
        return a.view(np.ndarray)
    return np.asarray(a)


def data_of(ctx, algopy, y, expect_shape=None):
    """coefficient array of a result; also accepts the object-ndarray of scalar
    UTPMs that numpy's ufunc dispatch produces for non-scalar shapes"""
    if isinstance(y, algopy.UTPM):
        return plain(y.data)
    if isinstance(y, np.ndarray) and npx.real_dtype(y) == object and y.size and isinstance(y.ravel()[0], algopy.UTPM):
        e0 = y.ravel()[0]
        D, P = e0.data.shape[:2]
        out = np.empty((D, P) + y.shape + e0.data.shape[2:], dtype=object if ctx.mode == 'sym' else plain(e0.data).dtype)
        for idx in np.ndindex(*y.shape):
            out[(slice(None), slice(None)) + idx] = plain(y[idx].data)
        return out
    raise TypeError('result is not a UTPM: %r' % type(y))


def x0_for_complex(ctx, fname, tag):
    """complex zeroth coefficient (functions SciPy/NumPy support on complex data)"""
    sym = ctx.mode == 'sym'
    if fname == 'sqrt':
        R = ctx.cvar('R_' + tag)
        ctx.assume(R.real > 0)
        x0 = R * R
        if sym:
            ctx.define_atom_c('sqrt', x0, R)
        return x0, {}
    x0 = ctx.cvar('x0_' + tag)
    if fname in ('log', 'reciprocal', 'powi', 'powi_np', 'log1p'):
        if sym:
            y = x0 + 1 if fname == 'log1p' else x0
            ctx.assume(y.re * y.re + y.im * y.im != 0)
        else:
            ctx.assume(abs(x0 + (1 if fname == 'log1p' else 0)) > 1e-3)
    return x0, {}


def x0_for(ctx, fname, tag):
    """zeroth coefficient inside the domain of smoothness of `fname`, in the
    parametrisation that turns the algebraic relations between the atoms the
    code meets into identities (DESIGN 2.5(4)).  Returns (x0, extras)."""
    sym = ctx.mode == 'sym'
    if fname == 'sqrt':
        R = ctx.var('R_' + tag, pos=True)
        x0 = R * R
        if sym:
            ctx.define_atom('sqrt', x0, R)
        return x0, {}
    if fname == 'tan':
        u = ctx.var('u_' + tag)
        ctx.assume(u != 1)
        ctx.assume(u != -1)
        if sym:
            x0 = ctx.var('x0_' + tag)
            ctx.define_atom('tan', x0, 2 * u / (1 - u * u))
            ctx.define_atom('cos', x0, (1 - u * u) / (1 + u * u))
            ctx.define_atom('sin', x0, 2 * u / (1 + u * u))
        else:
            x0 = 2 * math.atan(u)
        return x0, {}
    if fname in ('arcsin', 'arccos'):
        w = ctx.var('w_' + tag, lo=-1, hi=1)
        x0 = 2 * w / (1 + w * w)
        Z = (1 - w * w) / (1 + w * w)
        if sym:
            if fname == 'arcsin':
                ctx.define_atom('cos', F.arcsin(x0), Z)
            else:
                ctx.define_atom('sin', F.arccos(x0), Z)
        return x0, {'Z': Z}
    if fname in ('log', 'gammaln', 'psi', 'polygamma', 'hyperu', 'powf', 'powr', 'pow'):
        return ctx.var('x0_' + tag, pos=True), {}
    if fname == 'log1p':
        return ctx.var('x0_' + tag, lo=-1), {}
    if fname == 'logit':
        return ctx.var('x0_' + tag, lo=0, hi=1), {}
    if fname in ('reciprocal',):
        return ctx.var('x0_' + tag, nonzero=True), {}
    if fname in ('powi', 'powi_np'):
        return ctx.var('x0_' + tag, nonzero=True), {}
    return ctx.var('x0_' + tag), {}
