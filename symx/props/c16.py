"""C16  Closed-form n-th derivatives are the true derivatives.

For every function of algopy.nthderiv the closed forms are executed on a
symbolic point x.  Obligations: order 0 is the base function; order k+1 equals
d/dx of order k, where d/dx is the independent DAG differentiator (diff.py)
with textbook derivative rules for the atoms."""
from fractions import Fraction

import numpy as np

import symx
from .. import sym as S
from .. import diff, lib
from ..lib import F
from ..runner import Unit

PROP = 'C16'
EXPLANATION = 'C16: f(x, n=k+1) == d/dx f(x, n=k) for k < n_max, f(x, n=0) == f(x); x symbolic in the declared domain.'
ASSUMPTIONS = ['float mode (replay/validation) uses a 5-point central difference of the order-k value as reference (tolerance 1e-5)']

DOMAINS = {
    'exp': 'any', 'exp2': 'any', 'expm1': 'any', 'log': 'pos', 'log2': 'pos', 'log10': 'pos', 'log1p': 'gtm1',
    'sqrt': 'pos', 'square': 'any', 'negative': 'any', 'reciprocal': 'nonzero', 'sin': 'any', 'cos': 'any',
    'arcsin': 'abs1', 'arccos': 'abs1', 'arctan': 'any', 'sinh': 'any', 'cosh': 'any', 'arcsinh': 'any',
    'arccosh': 'gt1', 'arctanh': 'abs1', 'erf': 'any', 'erfi': 'any', 'gammaln': 'pos', 'psi': 'pos',
    'polygamma': 'pos', 'hyperu': 'pos',
}


def _x(ctx, dom):
    x = ctx.var('x')
    if dom == 'pos':
        ctx.assume(x > 0)
    elif dom == 'gtm1':
        ctx.assume(x > -1)
    elif dom == 'nonzero':
        ctx.assume(x != 0)
    elif dom == 'abs1':
        ctx.assume(x > -1)
        ctx.assume(x < 1)
    elif dom == 'gt1':
        ctx.assume(x > 1)
    return x


def _scalar(v):
    if isinstance(v, np.ndarray):
        v = v.view(np.ndarray)
        if v.ndim == 0:
            return v[()]
        if v.size == 1:
            return v.ravel()[0]
    return v


def call(algopy, fname, x, n, params):
    f = getattr(algopy.nthderiv, fname)
    if fname == 'polygamma':
        return _scalar(f(params['m'], x, n=n))
    if fname == 'hyperu':
        return _scalar(f(float(Fraction(params['a'])), float(Fraction(params['b'])), x, n=n))
    if fname == 'clip':
        return _scalar(f(params['lo'], params['hi'], x, n=n))
    return _scalar(f(x, n=n))


def base(ctx, fname, x, params):
    if fname == 'polygamma':
        return F.polygamma(x, params['m'])
    if fname == 'hyperu':
        return F.hyperu(x, Fraction(params['a']), Fraction(params['b']))
    if fname == 'square':
        return x * x
    if fname == 'negative':
        return -x
    if fname == 'reciprocal':
        return 1 / x
    return getattr(F, fname)(x)


def h_chain(ctx, fname, nmax, params=None, array=False, inplace=False, order='asc'):
    """order: the sequence in which the derivative orders are requested ('asc'; 'desc'; 'mixed' =
    nmax, 0, nmax-1, 1, ... followed by a second ascending pass that must reproduce every value):
    the value of order n must not depend on which orders were requested before"""
    algopy = symx.load_algopy()
    params = params or {}
    x = _x(ctx, DOMAINS[fname])
    if order != 'asc':
        seq = list(range(nmax, -1, -1))
        if order == 'mixed':
            seq = []
            lo, hi = 0, nmax
            while lo <= hi:
                seq.append(hi)
                if lo != hi:
                    seq.append(lo)
                lo, hi = lo + 1, hi - 1
        got = {}
        for n in seq:
            got[n] = call(algopy, fname, x, n, params)
        again = [call(algopy, fname, x, n, params) for n in range(nmax + 1)]
        for n in range(nmax + 1):
            ctx.eq(again[n], got[n], 'order %d requested again after other orders' % n)
        vals = [got[n] for n in range(nmax + 1)]
    else:
        vals = None
    for n in (range(nmax + 1) if vals is None else ()):
        if n == 0:
            vals = []
        if inplace:
            from .. import npx
            buf = npx.sarr(np.array([x], dtype=object)) if ctx.mode == 'sym' else np.array([x])
            v = _scalar(getattr(algopy.nthderiv, fname)(buf, out=buf, n=n))
        elif array and ctx.mode == 'sym':
            from .. import npx
            v = call(algopy, fname, npx.sarr(np.array([x], dtype=object)), n, params)
        elif array:
            v = call(algopy, fname, np.array([x]), n, params)
        else:
            v = call(algopy, fname, x, n, params)
        vals.append(v)
    ctx.eq(vals[0], base(ctx, fname, x, params), 'order0==f')
    if ctx.mode == 'sym':
        for k in range(nmax):
            ctx.eq(vals[k + 1], diff.ddx(S.lift(vals[k]), 'x'), 'order%d==d/dx order%d' % (k + 1, k))
    else:
        # finite-difference safety net: step proportional to the distance from the edge of the
        # domain (the derivatives blow up there), so that the truncation error stays below float_tol
        dom = DOMAINS[fname]
        dist = {'pos': abs(x), 'nonzero': abs(x), 'gtm1': abs(x + 1), 'abs1': 1 - abs(x), 'gt1': abs(x - 1)}.get(dom, 1.0)
        h = 1e-3 * min(1.0, dist)
        for k in range(nmax):
            g = lambda t: float(call(algopy, fname, t, k, params))
            fd = (-g(x + 2 * h) + 8 * g(x + h) - 8 * g(x - h) + g(x - 2 * h)) / (12 * h)
            ctx.eq(vals[k + 1], fd, 'order%d==d/dx order%d' % (k + 1, k))


def h_order_types(ctx, fname, nmax, params=None):
    """the order n given as a NumPy integer of any type (uint8, uint64, int32) equals the python int"""
    algopy = symx.load_algopy()
    params = params or {}
    x = _x(ctx, DOMAINS[fname])
    for n in range(nmax + 1):
        ref = call(algopy, fname, x, n, params)
        for t in (np.uint8, np.uint64, np.int32, np.int64):
            try:
                got = call(algopy, fname, x, t(n), params)
            except Exception as e:
                ctx.fact(False, '%s(x, n=%s(%d)) raised %s: %s' % (fname, t.__name__, n, type(e).__name__, str(e)[:60]))
                continue
            ctx.eq(got, ref, '%s order %s(%d) == order %d' % (fname, t.__name__, n, n))


INT_POINTS = {'any': [2, -3], 'pos': [2, 3], 'gtm1': [1, 2], 'nonzero': [2, -3], 'abs1': [0, 0], 'gt1': [2, 3]}


def h_arg_kinds(ctx, fname, nmax, params=None):
    """the argument given as an integer-typed array (int64 / int32 / int8; magnitudes whose square
    leaves the integer range), a python int, a list or a tuple gives the same value as the float
    array holding the same numbers (concrete numbers: decided on the float build)"""
    algopy = symx.load_algopy()
    params = params or {}
    if ctx.mode == 'sym':
        ctx.fact(True, 'concrete arguments: decided on the float build')
        ctx.eq(S.const(0), S.const(0), '%s: argument kinds' % fname)
        return
    pts = INT_POINTS[DOMAINS[fname]]
    cases = [('int64 array', np.array(pts, dtype=np.int64)), ('int32 array', np.array(pts, dtype=np.int32)), ('int8 array', np.array(pts, dtype=np.int8)),
             ('python int', int(pts[0])), ('list of floats', [float(v) for v in pts]), ('tuple of ints', tuple(pts))]
    if DOMAINS[fname] in ('any', 'gt1', 'pos', 'nonzero'):
        cases += [('int32 array, large', np.array([100000, 46341], dtype=np.int32)), ('int8 array, 20', np.array([20, 12], dtype=np.int8))]
    for n in range(0, nmax + 1):
        for label, arg in cases:
            if n == 0 and (label.startswith('int8') or fname in ('square', 'reciprocal')):
                # order 0 is NumPy's own function: it evaluates int8 arguments in half precision and
                # keeps integer arithmetic for square / reciprocal
                continue
            ref = call(algopy, fname, np.asarray(arg, dtype=float), n, params)
            try:
                got = call(algopy, fname, arg, n, params)
            except Exception as e:
                ctx.fact(False, '%s(%s, n=%d) raised %s: %s' % (fname, label, n, type(e).__name__, str(e)[:70]))
                continue
            ctx.eq(np.asarray(got, dtype=float), np.asarray(ref, dtype=float), '%s(%s, n=%d) == value on the float array' % (fname, label, n))


def h_far_points(ctx, fname):
    """closed-form references at points far from the origin, compared RELATIVELY (orders n >= 1 of
    expm1 are exp(x): a formula that goes through expm1(x) + 1 loses all digits for x << 0; orders of
    exp2 are ln2^n 2^x).  Concrete points: decided on the float build."""
    import math
    algopy = symx.load_algopy()
    if ctx.mode == 'sym':
        ctx.fact(True, 'concrete far points: decided on the float build')
        ctx.eq(S.const(0), S.const(0), '%s at far points' % fname)
        return
    pts = np.array([-45.0, -38.5, -30.0, -20.0, -3.0, 20.0])
    for n in (1, 2, 3):
        got = np.asarray(call(algopy, fname, pts.copy(), n, {}), dtype=float)
        ref = {'expm1': np.exp(pts), 'exp': np.exp(pts), 'exp2': math.log(2.0) ** n * np.exp2(pts)}[fname]
        for i in range(len(pts)):
            ctx.fact(abs(got[i] - ref[i]) <= 1e-12 * abs(ref[i]), '%s(x=%g, n=%d) == closed form to 1e-12 relative (got %r, expected %r)' % (fname, pts[i], n, got[i], ref[i]))


def h_piecewise(ctx, fname, nmax):
    """piecewise constant / linear functions: derivative orders >= 1 on each path"""
    algopy = symx.load_algopy()
    x = ctx.var('x')
    f = getattr(algopy.nthderiv, fname)
    if fname == 'clip':
        lo, hi = ctx.var('lo'), ctx.var('hi')
        ctx.assume(lo < hi)
        ctx.assume(x != lo)
        ctx.assume(x != hi)
        inside = bool(x > lo) and bool(x < hi)
        ctx.eq(_scalar(f(lo, hi, x, n=1)), 1 if inside else 0, 'clip order1')
        for n in range(2, nmax + 1):
            ctx.eq(_scalar(f(lo, hi, x, n=n)), 0, 'clip order%d' % n)
        ref0 = x if inside else (lo if bool(x < lo) else hi)
        ctx.eq(_scalar(f(lo, hi, x, n=0)), ref0, 'clip order0')
        return
    ctx.assume(x != 0)
    if fname == 'absolute':
        pos = bool(x > 0)
        ctx.eq(_scalar(f(x, n=0)), x if pos else -x, 'abs order0')
        ctx.eq(_scalar(f(x, n=1)), 1 if pos else -1, 'abs order1')
        for n in range(2, nmax + 1):
            ctx.eq(_scalar(f(x, n=n)), 0, 'abs order%d' % n)
        return
    if fname == 'sign':
        pos = bool(x > 0)
        ctx.eq(_scalar(f(x, n=0)), 1 if pos else -1, 'sign order0')
    for n in range(1, nmax + 1):
        ctx.eq(_scalar(f(x, n=n)), 0, '%s order%d' % (fname, n))


def units(tier, seed):
    out = []
    nmax = 5 if tier == 'quick' else 20
    opts = {'property': PROP, 'float_tol': 1e-5, 'definedness': True}

    def add(name, func, **kw):
        out.append(Unit('C16/' + name, 'symx.props.c16', func, kw, dict(opts)))

    for fname in DOMAINS:
        if fname in ('polygamma', 'hyperu'):
            continue
        n = nmax
        if fname in ('arcsin', 'arccos', 'arcsinh', 'arccosh') and tier == 'quick':
            n = 4
        add('%s/n<=%d' % (fname, n), 'h_chain', fname=fname, nmax=n)
    # orders whose integer factors (n!, double factorials) exceed the int64 range; only functions whose
    # tables are exact python integers (beyond 2^53 the float tables of the others are rounded)
    for fname in ('reciprocal', 'log', 'exp', 'negative', 'sin'):
        add('%s/n<=23' % fname, 'h_chain', fname=fname, nmax=23)
    for fname in ('exp', 'log', 'sqrt', 'sin', 'erf', 'arctan', 'reciprocal'):
        add('%s/array-arg/n<=3' % fname, 'h_chain', fname=fname, nmax=3, array=True)
    for fname in DOMAINS:
        if fname in ('polygamma', 'hyperu'):
            continue
        add('%s/out=x aliased/n<=3' % fname, 'h_chain', fname=fname, nmax=3, inplace=True)
    for fname in DOMAINS:
        if fname in ('polygamma', 'hyperu'):
            continue
        add('%s/orders requested descending/n<=4' % fname, 'h_chain', fname=fname, nmax=4, order='desc')
        add('%s/orders requested in mixed sequence/n<=%d' % (fname, 4 if tier == 'quick' else 6), 'h_chain', fname=fname,
            nmax=4 if tier == 'quick' else 6, order='mixed')
    add('polygamma(m=1)/orders requested in mixed sequence/n<=4', 'h_chain', fname='polygamma', nmax=4, params={'m': 1}, order='mixed')
    add('hyperu(3/2,1/2)/orders requested in mixed sequence/n<=4', 'h_chain', fname='hyperu', nmax=4, params={'a': '3/2', 'b': '1/2'}, order='mixed')
    for fname in ('erf', 'erfi', 'log', 'reciprocal', 'arctan', 'arcsinh', 'arctanh', 'sin', 'sqrt', 'exp2'):
        add('%s/order given as a NumPy integer/n<=3' % fname, 'h_order_types', fname=fname, nmax=3)
    for fname in DOMAINS:
        if fname in ('polygamma', 'hyperu'):
            continue
        out.append(Unit('C16/%s/argument kinds (integer-typed arrays, python int, list, tuple)/n<=2' % fname, 'symx.props.c16', 'h_arg_kinds',
                        {'fname': fname, 'nmax': 2}, dict(opts, float_rel=1e-9)))
    out.append(Unit('C16/polygamma(m=1)/argument kinds (integer-typed arrays, python int, list, tuple)/n<=2', 'symx.props.c16', 'h_arg_kinds',
                    {'fname': 'polygamma', 'nmax': 2, 'params': {'m': 1}}, dict(opts, float_rel=1e-9)))
    out.append(Unit('C16/polygamma(m=0)/argument kinds (integer-typed arrays, python int, list, tuple)/n<=2', 'symx.props.c16', 'h_arg_kinds',
                    {'fname': 'polygamma', 'nmax': 2, 'params': {'m': 0}}, dict(opts, float_rel=1e-9)))
    out.append(Unit('C16/hyperu(3/2,1/2)/argument kinds (integer-typed arrays, python int, list, tuple)/n<=2', 'symx.props.c16', 'h_arg_kinds',
                    {'fname': 'hyperu', 'nmax': 2, 'params': {'a': '3/2', 'b': '1/2'}}, dict(opts, float_rel=1e-9)))
    for fname in ('expm1', 'exp', 'exp2'):
        out.append(Unit('C16/%s/orders 1..3 at points far from the origin, relative comparison' % fname, 'symx.props.c16', 'h_far_points', {'fname': fname}, dict(opts)))
    add('hyperu(3/2,1/2)/order given as a NumPy integer/n<=2', 'h_order_types', fname='hyperu', nmax=2, params={'a': '3/2', 'b': '1/2'})
    for m in ((0, 1, 2) if tier == 'quick' else (0, 1, 2, 3, 5)):
        add('polygamma(m=%d)/n<=%d' % (m, nmax), 'h_chain', fname='polygamma', nmax=nmax, params={'m': m})
    for a, b in ([('3/2', '1/2'), ('1', '3'), ('-1/2', '3/2')] if tier == 'quick' else
                 [('3/2', '1/2'), ('1', '3'), ('-1/2', '3/2'), ('2', '2'), ('-5/2', '1/2'), ('1/2', '5/2')]):
        hn = min(nmax, 9)     # scipy.special.hyperu returns nan for large parameters (a+n >= 13): floating-point range, outside the claim
        add('hyperu(%s,%s)/n<=%d' % (a, b, hn), 'h_chain', fname='hyperu', nmax=hn, params={'a': a, 'b': b})
    for fname in ('rint', 'fix', 'floor', 'ceil', 'trunc', 'sign', 'clip', 'absolute'):
        add('%s/piecewise/n<=3' % fname, 'h_piecewise', fname=fname, nmax=3)
    return out
