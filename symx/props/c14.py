"""C14  Operands are never modified; aliased and in-place forms are safe.

(a) every catalogued public operation (and the factorisations / tracer sweeps
    through their own checks C07/C08/C03/C06) leaves the coefficient data of its
    arguments term-for-term unchanged;
(b) x op x == x op x.copy(), x op= x == x op= x.copy(), x op= view-of-x
    (x[::-1], x.T, x[0:1] broadcast) == x op= independent copy: decided for all
    coefficient values (the polynomials really differ if the loop order is
    wrong, e.g. x *= x);
(c) recording and reverse sweeps do not modify the user's input and seed objects."""
import operator

import numpy as np

import symx
from .. import sym as S
from .. import npx, ops as O
from ..runner import Unit
from .common import mk_utpm, plain

PROP = 'C14'
EXPLANATION = 'C14: operations enumerated from the catalogue; all coefficient values symbolic.'


def h_unchanged(ctx, opname, D, P, layout='C'):
    algopy = symx.load_algopy()
    op = O.by_name()[opname]
    raw = [O.make_input(ctx, a, 'a%d' % k, D, P) for k, a in enumerate(op.args)]
    if 'neq' in op.tags:
        for idx in np.ndindex(*raw[0][0].shape):
            ctx.assume(raw[0][0][idx] != raw[1][0][idx])
    if 'distinct' in op.tags:
        z = raw[0][0]
        for p_ in range(z.shape[0]):
            for i in range(z.shape[1]):
                for j in range(i):
                    ctx.assume(z[p_, i] != z[p_, j])
    objs = [O.wrap(ctx, algopy, a, r, layout) for a, r in zip(op.args, raw)]
    res = op.fn(algopy, *objs)
    if op.group != 'shape':
        # a computed result is a new array: updating it in place must not touch an operand
        for k, (a, o) in enumerate(zip(op.args, objs)):
            for rr in (res if isinstance(res, tuple) else (res,)):
                if a.kind == 'utpm' and hasattr(rr, 'data'):
                    ctx.fact(not np.shares_memory(rr.data, o.data), 'result of %s does not share memory with argument %d' % (opname, k))
    for k, (a, r, o) in enumerate(zip(op.args, raw, objs)):
        if a.kind == 'utpm':
            ctx.eq(plain(o.data), np.asarray(r, dtype=object), 'argument %d unchanged by %s' % (k, opname))
        elif a.kind == 'ndarray':
            ctx.eq(plain(o), np.asarray(r, dtype=object), 'constant argument %d unchanged by %s' % (k, opname))


def h_pb_rule(ctx, opname, D, P):
    """the reverse rule of one operation, run the way the tracer runs it but with the caller's own
    seed object as the adjoint of the result (the low-level call UTPM.pb_f(ybar, x, y, out=...)):
    the seed, the operands and the result are left unchanged"""
    algopy = symx.load_algopy()
    op = O.by_name()[opname]
    raw = [O.make_input(ctx, a, 'a%d' % k, D, P) for k, a in enumerate(op.args)]
    if 'neq' in op.tags:
        for idx in np.ndindex(*raw[0][0].shape):
            ctx.assume(raw[0][0][idx] != raw[1][0][idx])
    if 'distinct' in op.tags:
        z = raw[0][0]
        for p_ in range(z.shape[0]):
            for i in range(z.shape[1]):
                for j in range(i):
                    ctx.assume(z[p_, i] != z[p_, j])
    objs = [O.wrap(ctx, algopy, a, r) for a, r in zip(op.args, raw)]
    cg = algopy.CGraph()
    fobjs = [algopy.Function(o) if a.kind == 'utpm' else o for a, o in zip(op.args, objs)]
    try:
        fy = op.fn(algopy, *fobjs)
    except Exception as e:
        if type(e).__name__ in ('Inconclusive', 'PathAbort'):
            raise
        ctx.fact(True, 'not traceable: %s' % type(e).__name__)
        ctx.eq(S.const(0) if ctx.mode == 'sym' else 0.0, S.const(0) if ctx.mode == 'sym' else 0.0, 'nothing to run')
        return
    cg.trace_off()
    if not isinstance(fy, algopy.Function) or not isinstance(fy.x, algopy.UTPM):
        ctx.fact(True, 'no single polynomial result')
        ctx.eq(S.const(0) if ctx.mode == 'sym' else 0.0, S.const(0) if ctx.mode == 'sym' else 0.0, 'nothing to run')
        return
    Y = plain(fy.x.data).copy()
    for f in cg.functionList:
        f.xbar_from_x()
    YB = np.empty(Y.shape, dtype=object)
    for idx in np.ndindex(*Y.shape):
        YB[idx] = ctx.var('ybar%s' % list(idx))
    seed = O.wrap(ctx, algopy, O.Arg('utpm', Y.shape[2:]), YB)
    fy.xbar = seed
    try:
        for f in cg.functionList[::-1]:
            if f is fy or any(f is a for a in fobjs):
                algopy.Function.pullback(f)
    except NotImplementedError as e:
        ctx.fact(True, 'no reverse rule: %s' % str(e)[:60])
        return
    except AttributeError as e:
        if "has no attribute 'pb_" not in str(e):
            raise
        ctx.fact(True, 'no reverse rule: %s' % str(e)[:60])
        return
    ctx.eq(plain(seed.data), YB, 'seed unchanged by the reverse rule of %s' % opname)
    ctx.eq(plain(fy.x.data), Y, 'result unchanged by the reverse rule of %s' % opname)
    for k, (a, r, o) in enumerate(zip(op.args, raw, objs)):
        if a.kind == 'utpm':
            ctx.eq(plain(o.data), np.asarray(r, dtype=object), 'argument %d unchanged by the reverse rule of %s' % (k, opname))
        elif a.kind == 'ndarray':
            ctx.eq(plain(o), np.asarray(r, dtype=object), 'constant argument %d unchanged by the reverse rule of %s' % (k, opname))


BIN = {'add': operator.add, 'sub': operator.sub, 'mul': operator.mul, 'div': operator.truediv}
IBIN = {'add': operator.iadd, 'sub': operator.isub, 'mul': operator.imul, 'div': operator.itruediv}


def h_alias_of_view(ctx, opn, how, D, P):
    """x op= x.data[0,0] (and x op= x.data[0,0][::-1]) where x is itself a VIEW of a larger
    polynomial array (z[1:], z.T, z[:, 0]): same coefficients as with an independent copy of the
    right-hand side, and the rest of z is untouched"""
    algopy = symx.load_algopy()
    Z = O.make_input(ctx, O.Arg('utpm', (3, 2), 'nonzero' if opn == 'div' else 'any'), 'z', D, P)
    pick = {'z[1:]': lambda z: z[1:], 'z.T': lambda z: z.T, 'z[:, 0]': lambda z: z[:, 0], 'z[::-1]': lambda z: z[::-1]}[how]
    for rv, rview in (('x.data[0,0]', lambda d: d[0, 0]), ('x.data[0,0][::-1]', lambda d: d[0, 0][::-1])):
        z = mk_utpm(ctx, algopy, Z)
        x = pick(z)
        ref_obj = pick(mk_utpm(ctx, algopy, Z)).copy()
        rhs_indep = np.array(plain(rview(pick(mk_utpm(ctx, algopy, Z)).copy().data)).tolist(), dtype=object)
        rhs_indep = O.wrap(ctx, algopy, O.Arg('ndarray', rhs_indep.shape), rhs_indep)
        try:
            ref = IBIN[opn](ref_obj, rhs_indep)
            x = IBIN[opn](x, rview(x.data))
        except Exception as e:
            ctx.fact(False, '%s: x %s= %s raised %s: %s' % (how, opn, rv, type(e).__name__, str(e)[:80]))
            continue
        ctx.eq(plain(x.data), plain(ref.data), 'x = %s; x %s= %s == the same with an independent copy of the right-hand side' % (how, opn, rv))
        ctx.eq(plain(pick(z).data), plain(ref.data), 'the update is visible through z (x is a view)')


def h_alias(ctx, opn, form, shape, D, P):
    algopy = symx.load_algopy()
    shape = tuple(shape)
    X = O.make_input(ctx, O.Arg('utpm', shape, 'nonzero' if opn == 'div' else 'any'), 'x', D, P)

    def fresh():
        return mk_utpm(ctx, algopy, X)

    def view(x):
        if form.endswith('x'):
            return x
        if form.endswith('x[::-1]'):
            return x[::-1]
        if form.endswith('x.T'):
            return x.T
        if form.endswith('x[0:1]'):
            return x[0:1]
        if form.endswith('x[0]'):
            return x[0]
        if form.endswith('x.data[0,0]'):
            # a plain ndarray that is a view of the object's own nominal values (rescaling a
            # series by its own base value)
            return x.data[0, 0]
        raise KeyError(form)
    x = fresh()
    indep = view(fresh()).copy()          # an independent object with the same values as the view
    if form.startswith('x op= '):
        a = fresh()
        b = fresh()
        try:
            a = IBIN[opn](a, view(a))
        except Exception as e:
            ctx.fact(False, '%s (%s) raised %s: %s' % (form, opn, type(e).__name__, str(e)[:100]))
            return
        b = IBIN[opn](b, indep)
        ctx.eq(plain(a.data), plain(b.data), '%s with %s: aliased == independent copy' % (form, opn))
    else:
        r1 = BIN[opn](x, view(x))
        r2 = BIN[opn](fresh(), indep)
        ctx.eq(plain(r1.data), plain(r2.data), '%s with %s: aliased == independent copy' % (form, opn))
        ctx.eq(plain(x.data), X, 'operand unchanged')


def h_alias_views(ctx, opn, form, D, P):
    """both operands are views of ONE larger polynomial (a row of a matrix and its reversal, two
    overlapping windows of a vector, a reshaped buffer): x op= view equals x op= independent copy,
    and the rest of the parent is untouched"""
    algopy = symx.load_algopy()
    dom = 'nonzero' if opn == 'div' else 'any'
    if form == 'row op= row[::-1]':
        B = O.make_input(ctx, O.Arg('utpm', (2, 3), dom), 'b', D, P)
        def pick(b):
            r = b[1]
            return r, r[::-1]
    elif form == 'window op= overlapping window':
        B = O.make_input(ctx, O.Arg('utpm', (4,), dom), 'b', D, P)
        def pick(b):
            return b[0:3], b[1:4]
    elif form == 'column op= other column':
        B = O.make_input(ctx, O.Arg('utpm', (2, 2), dom), 'b', D, P)
        def pick(b):
            return b[:, 0], b[:, 1]
    elif form == 'reshaped op= its transpose':
        B = O.make_input(ctx, O.Arg('utpm', (4,), dom), 'b', D, P)
        def pick(b):
            m = b.reshape((2, 2))
            return m, m.T
    else:
        raise KeyError(form)
    b1 = mk_utpm(ctx, algopy, B)
    b2 = mk_utpm(ctx, algopy, B)
    l1, r1 = pick(b1)
    l2, r2 = pick(b2)
    r2 = r2.copy()
    ctx.fact(bool(np.shares_memory(l1.data, b1.data)), 'the left operand is a view of the parent')
    try:
        l1 = IBIN[opn](l1, r1)
    except Exception as e:
        ctx.fact(False, '%s (%s) raised %s: %s' % (form, opn, type(e).__name__, str(e)[:100]))
        return
    l2 = IBIN[opn](l2, r2)
    ctx.eq(plain(b1.data), plain(b2.data), '%s with %s: parent after the aliased update == after the update with an independent copy' % (form, opn))


def h_pow_alias(ctx, D, P):
    algopy = symx.load_algopy()
    X = O.make_input(ctx, O.Arg('utpm', (2,), 'pos'), 'x', D, P)
    x = mk_utpm(ctx, algopy, X)
    r1 = x ** x
    r2 = mk_utpm(ctx, algopy, X) ** mk_utpm(ctx, algopy, X)
    ctx.eq(plain(r1.data), plain(r2.data), 'x**x aliased == independent')
    ctx.eq(plain(algopy.dot(x, x).data), plain(algopy.dot(mk_utpm(ctx, algopy, X), mk_utpm(ctx, algopy, X)).data), 'dot(x,x)')
    ctx.eq(plain(algopy.outer(x, x).data), plain(algopy.outer(mk_utpm(ctx, algopy, X), mk_utpm(ctx, algopy, X)).data), 'outer(x,x)')
    ctx.eq(plain(x.data), X, 'operand unchanged')


def h_ipow(ctx, r, D, P):
    """x **= r (python int, float, numpy integer, negative) equals x ** r, also on a view of a buffer,
    and a second object on the same data sees the new value"""
    from fractions import Fraction
    algopy = symx.load_algopy()
    rr = {'3': 3, '5': 5, '2': 2, '-1': -1, '2.5': 2.5, 'int64(4)': np.int64(4), '1': 1, '0': 0}[r]
    dom = 'pos' if r == '2.5' else ('nonzero' if r == '-1' else 'any')
    X = O.make_input(ctx, O.Arg('utpm', (2,), dom), 'x', D, P)
    ref = plain((mk_utpm(ctx, algopy, X) ** rr).data)
    x = mk_utpm(ctx, algopy, X)
    x **= rr
    ctx.eq(plain(x.data), ref, 'x **= %s == x ** %s' % (r, r))
    B = O.make_input(ctx, O.Arg('utpm', (3,), dom), 'b', D, P)
    buf = mk_utpm(ctx, algopy, B)
    head = buf[0:2]
    refh = plain((mk_utpm(ctx, algopy, B[:, :, 0:2]) ** rr).data)
    head **= rr
    ctx.eq(plain(buf.data)[:, :, 0:2], refh, 'view **= %s writes through to the buffer' % r)
    ctx.eq(plain(buf.data)[:, :, 2], B[:, :, 2], 'entries outside the view unchanged')


def h_floordiv(ctx, D, P):
    """x // y (L'Hospital division, zero leading coefficients) leaves both operands alone"""
    algopy = symx.load_algopy()
    X = O.make_input(ctx, O.Arg('utpm', (), 'zero'), 'x', D, P)
    Y = O.make_input(ctx, O.Arg('utpm', (), 'zero'), 'y', D, P)
    for p in range(P):
        ctx.assume(Y[1, p] * Y[1, p] > 1)
    if P > 1:
        # the last direction has a regular (non-zero) leading coefficient
        X[0, P - 1] = ctx.var('xreg')
        Y[0, P - 1] = ctx.var('yreg')
        ctx.assume(Y[0, P - 1] * Y[0, P - 1] > 1)
    x, y = mk_utpm(ctx, algopy, X), mk_utpm(ctx, algopy, Y)
    z = x // y
    ctx.eq(plain(x.data), X, 'numerator unchanged by //')
    ctx.eq(plain(y.data), Y, 'denominator unchanged by //')
    # quotient of the shifted polynomials:  z * (y/t) == (x/t)
    Z = plain(z.data)
    for p in range(P):
        sh = 0 if (P > 1 and p == P - 1) else 1
        for d in range(D - sh):
            s = 0
            for c in range(d + 1):
                s = s + Z[c, p] * Y[d - c + sh, p]
            ctx.eq(s, X[d + sh, p], '(x//y) * (y/t^%d) == x/t^%d order %d dir %d' % (sh, sh, d, p))


def h_tracer_inputs(ctx, pname, D, P):
    """neither recording nor a reverse sweep modifies the user's input and seed objects"""
    from .c03 import Namespace, make_consts, make_curve, get_prog, record, pullback_guard
    algopy = symx.load_algopy()
    prog = get_prog(pname)
    arg, X = make_curve(ctx, prog, 'x', D, P)
    A = Namespace(algopy, make_consts(ctx, prog))
    x = O.wrap(ctx, algopy, arg, X)
    cg, fx, fy = record(ctx, algopy, A, prog, x)
    ctx.eq(plain(x.data), X, 'input unchanged by recording')
    X2 = O.make_input(ctx, arg, 'z', D, P) if prog.dom == 'any' else X
    x2 = O.wrap(ctx, algopy, arg, X2)
    cg.pushforward([x2])
    ctx.eq(plain(x2.data), X2, 'input unchanged by re-evaluation')
    Y = plain(cg.dependentFunctionList[0].x.data)
    YB = np.empty(Y.shape, dtype=object)
    for idx in np.ndindex(*Y.shape):
        YB[idx] = ctx.var('ybar%s' % list(idx))
    ybar = O.wrap(ctx, algopy, O.Arg('utpm', Y.shape[2:]), YB)
    if pullback_guard(ctx, algopy, cg, [ybar]):
        ctx.eq(plain(ybar.data), YB, 'seed unchanged by the reverse sweep')
        ctx.eq(plain(x2.data), X2, 'input unchanged by the reverse sweep')
        xb1 = plain(cg.independentFunctionList[0].xbar.data).copy()
        if pullback_guard(ctx, algopy, cg, [ybar]):
            ctx.eq(plain(ybar.data), YB, 'seed unchanged by a second reverse sweep')
            ctx.eq(plain(cg.independentFunctionList[0].xbar.data), xb1, 'second sweep with the same seed object gives the same adjoint')
    # a third evaluation with yet another input object: the inputs handed in EARLIER (same type and
    # shape as the recorded value) are still what the caller put into them
    X3 = O.make_input(ctx, arg, 'w', D, P) if prog.dom == 'any' else X
    x3 = O.wrap(ctx, algopy, arg, X3)
    cg.pushforward([x3])
    cg.pushforward([O.wrap(ctx, algopy, arg, X3)])
    ctx.eq(plain(x.data), X, 'recording input unchanged by later evaluations')
    ctx.eq(plain(x2.data), X2, 'input of the first re-evaluation unchanged by later evaluations')
    ctx.eq(plain(x3.data), X3, 'input of the second re-evaluation unchanged by the third')


def h_constants_kept(ctx, kind, D, P):
    """arrays / polynomials of the caller that a recorded program only READS (wrapped as constant
    nodes, or used as plain operands) are never written by a re-evaluation or a sweep -- also
    when the caller has changed them after recording, or made them read-only"""
    algopy = symx.load_algopy()
    X = O.make_input(ctx, O.Arg('utpm', (2,)), 'x', D, P)
    X2 = O.make_input(ctx, O.Arg('utpm', (2,)), 'z', D, P)
    Q = O.make_input(ctx, O.Arg('ndarray', (2,)), 'q', D, P)
    Cn = O.make_input(ctx, O.Arg('ndarray', (2,)), 'c', D, P)
    CU = O.make_input(ctx, O.Arg('utpm', (2,)), 'cu', D, P)
    c = mk_utpm(ctx, algopy, CU) if kind == 'polynomial operand' else O.wrap(ctx, algopy, O.Arg('ndarray', (2,)), Cn)
    if kind == 'read-only wrapped array':
        if ctx.mode == 'sym':
            ctx.fact(True, 'read-only flag: decided on the float build')
            ctx.eq(S.const(0), S.const(0), 'value')
            return
        c.flags.writeable = False
    cg = algopy.CGraph()
    fx = algopy.Function(mk_utpm(ctx, algopy, X))
    if kind == 'polynomial operand':
        fy = algopy.sum(fx * c * fx)
    else:
        fy = algopy.sum(algopy.Function(c) * fx * fx)
    cg.trace_off()
    cg.independentFunctionList = [fx]
    cg.dependentFunctionList = [fy]
    if kind == 'wrapped array, changed after recording':
        c[...] = O.wrap(ctx, algopy, O.Arg('ndarray', (2,)), Q)
        want = Q
    elif kind == 'polynomial operand':
        want = CU
    else:
        want = Cn
    try:
        cg.pushforward([mk_utpm(ctx, algopy, X2)])
        ybar = fy.x.zeros_like()
        ybar.data[0] = 1.0 if ctx.mode == 'float' else S.const(1)
        cg.pullback([ybar])
        cg.pushforward([mk_utpm(ctx, algopy, X)])
    except Exception as e:
        if type(e).__name__ in ('Inconclusive', 'PathAbort'):
            raise
        ctx.fact(False, 're-evaluation raised %s' % (str(e).strip().splitlines()[-1][:120] if str(e).strip() else type(e).__name__))
        return
    got = plain(c.data) if kind == 'polynomial operand' else plain(c)
    ctx.eq(got, np.asarray(want, dtype=object), 'the caller\'s constant (%s) is what the caller put into it' % kind)


def h_two_outputs(ctx, D, P):
    """outputs [y1, y2] with y2 = g(y1): the user's seeds must stay intact"""
    from .c03 import Namespace
    algopy = symx.load_algopy()
    X = O.make_input(ctx, O.Arg('utpm', (2,)), 'x', D, P)
    cg = algopy.CGraph()
    fx = algopy.Function(mk_utpm(ctx, algopy, X))
    y1 = fx * fx
    y2 = algopy.sin(y1)
    cg.trace_off()
    cg.independentFunctionList = [fx]
    cg.dependentFunctionList = [y1, y2]
    S1 = O.make_input(ctx, O.Arg('utpm', (2,)), 's1', D, P)
    S2 = O.make_input(ctx, O.Arg('utpm', (2,)), 's2', D, P)
    s1, s2 = mk_utpm(ctx, algopy, S1), mk_utpm(ctx, algopy, S2)
    cg.pullback([s1, s2])
    xb = plain(fx.xbar.data).copy()
    ctx.eq(plain(s1.data), S1, 'seed 1 intact')
    ctx.eq(plain(s2.data), S2, 'seed 2 intact')
    cg.pullback([s1, s2])
    ctx.eq(plain(fx.xbar.data), xb, 'second sweep with the same seed objects')


def units(tier, seed):
    out = []
    opts = {'property': PROP, 'path_budget': 300}

    def add(name, func, o=None, **kw):
        oo = dict(opts)
        oo.update(o or {})
        out.append(Unit('C14/' + name, 'symx.props.c14', func, kw, oo))

    D, P = (3, 2) if tier == 'quick' else (6, 3)
    for op in O.catalogue():
        add('unchanged/%s/D%d,P%d' % (op.name, D, P), 'h_unchanged', opname=op.name, D=D, P=P)
        if tier != 'quick':
            add('unchanged/%s/D9,P1' % op.name, 'h_unchanged', opname=op.name, D=9, P=1)
            if op.group != 'kink':      # (one branch per element and direction)
                add('unchanged/%s/D2,P5' % op.name, 'h_unchanged', opname=op.name, D=2, P=5)
    for op in O.catalogue():
        if op.group != 'kink' and 'setitem' not in op.tags and not op.name.startswith('y['):
            add('reverse rule leaves seed, operands and result unchanged/%s/D2,P2' % op.name, 'h_pb_rule', opname=op.name, D=2, P=2)
    for op in O.catalogue():
        if any(len(a.shape) >= 2 for a in op.args):
            # matrices in Fortran order: the layout LAPACK/scipy wrappers overwrite in place
            add('unchanged, Fortran-ordered matrices/%s/D2,P2' % op.name, 'h_unchanged', opname=op.name, D=2, P=2, layout='F')
    for opn in BIN:
        for form, shp in [('x op x', (2,)), ('x op x', (2, 2)), ('x op x[::-1]', (3,)), ('x op x.T', (2, 2)), ('x op x[0]', (2, 2)),
                          ('x op= x', (2,)), ('x op= x', (2, 2)), ('x op= x[::-1]', (3,)), ('x op= x.T', (2, 2)),
                          ('x op= x[0:1]', (2, 2)), ('x op= x[0]', (2, 2)), ('x op= x.data[0,0]', (2,)), ('x op= x.data[0,0]', (2, 2)),
                          ('x op x.data[0,0]', (2,))]:
            add('alias/%s/%s/%s' % (form, opn, shp), 'h_alias', opn=opn, form=form, shape=shp, D=D, P=P)
    for opn in BIN:
        for form in ('row op= row[::-1]', 'window op= overlapping window', 'column op= other column', 'reshaped op= its transpose'):
            add('alias/views of one parent/%s/%s' % (form, opn), 'h_alias_views', opn=opn, form=form, D=3, P=2)
    for opn in BIN:
        for how in ('z[1:]', 'z.T', 'z[:, 0]', 'z[::-1]'):
            add('alias/x a view of a larger array (%s)/x op= x.data[0,0]/%s' % (how, opn), 'h_alias_of_view', opn=opn, how=how, D=3, P=2)
    add('alias/pow,dot,outer', 'h_pow_alias', D=D, P=P)
    for r in ('3', '5', '2', '-1', '2.5', 'int64(4)', '1', '0'):
        add('alias/x **= %s/D3,P2' % r, 'h_ipow', r=r, D=3, P=2)
    for sh in (1, 2, -1, -3):
        out.append(Unit('C14/alias/x.shift(%d, out=x)/D4,P2' % sh, 'symx.props.c17', 'h_shift', {'D': 4, 'P': 2, 's': sh}, dict(opts)))
    add('floordiv zero leading coefficients/D3,P1', 'h_floordiv', D=3, P=1)
    add('floordiv zero leading coefficient in one direction only/D3,P2', 'h_floordiv', D=3, P=2)
    for pn in ['x*x', 'x/(1+x*x)', 'exp', 'buffer', 'buffer-overwrite', 'tan(x)*x', 'dot(mat,mat)', 'inv', 'sum', 'x[1:]*x[:-1]']:
        add('tracer inputs and seeds/%s' % pn, 'h_tracer_inputs', pname=pn, D=2, P=2)
    add('tracer two dependent outputs', 'h_two_outputs', D=2, P=2)
    for kind in ('wrapped array', 'wrapped array, changed after recording', 'polynomial operand', 'read-only wrapped array'):
        add('constants of the caller untouched by re-evaluation and sweeps/%s' % kind, 'h_constants_kept', kind=kind, D=2, P=2)
    for drv in ('gradient', 'jacobian', 'hessian', 'vec_jac'):
        out.append(Unit('C14/program writing into its independent variable/%s leaves the caller\'s array unchanged' % drv, 'symx.props.c04', 'h_input_kept', {'driver': drv}, {'property': PROP, 'float_tol': 5e-5}))
    # factorisations: the C08 harnesses end with `input unchanged`; here with C- and Fortran-ordered
    # coefficient matrices (LAPACK wrappers called with overwrite_a=True destroy the latter)
    for nm, func, kw in [('qr/3x2', 'h_qr', dict(M=3, N=2, D=2, P=1)), ('qr/2x2', 'h_qr', dict(M=2, N=2, D=2, P=2)),
                         ('qr_full/3x2', 'h_qr', dict(M=3, N=2, D=2, P=1, full=True)),
                         ('qr_full/2x2', 'h_qr', dict(M=2, N=2, D=2, P=1, full=True)),
                         ('cholesky/2x2', 'h_cholesky', dict(n=2, D=2, P=1)), ('eigh/2x2', 'h_eigh', dict(n=2, D=2, P=1)),
                         ('lu/2x2', 'h_lu', dict(n=2, D=2, P=1, variant='lu')), ('lu_factor/2x2', 'h_lu', dict(n=2, D=2, P=1, variant='lu_factor')),
                         ('eig/2x2', 'h_eig', dict(n=2, D=2, P=1)), ('svd/2x2', 'h_svd', dict(D=2, P=1))]:
        for layout in ('C', 'F'):
            oo = dict(opts, layout=layout)
            if nm.startswith(('eig/', 'svd')):
                oo['validate_values'] = False
            if nm.startswith('svd'):
                oo['crosscheck'] = False
            out.append(Unit('C14/factorisation operand unchanged/%s/%s order' % (nm, layout), 'symx.props.c08', func, kw, oo))
    return out
