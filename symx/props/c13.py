"""C13  Shape-manipulating operations act slice-wise like NumPy, with view semantics.

Every element of the operand is a distinct symbol (the most general value), so
"the same NumPy operation applied to every coefficient slice" is decided by
comparing terms position by position (hash-consing / solver).  Index
expressions, shapes, axes, repetitions and offsets are enumerated from a
grammar; NumPy itself, run on the same symbolic arrays slice by slice, is the
executable specification.  View semantics: numpy.shares_memory must agree with
NumPy's answer for the same index on a plain array, and a write through the
view must be visible in the parent term for term."""
import itertools
import random

import numpy as np

import symx
from .. import sym as S
from .. import npx
from ..runner import Unit
from .common import mk_utpm, mk_array, plain

PROP = 'C13'
EXPLANATION = 'C13: index expressions / shapes / axes enumerated from a grammar; operand elements are distinct symbols.'


def V(ctx, name, shape, cplx=False):
    A = np.empty(shape, dtype=object)
    for idx in np.ndindex(*shape):
        A[idx] = ctx.cvar('%s%s' % (name, list(idx))) if cplx else ctx.var('%s%s' % (name, list(idx)))
    return A


# ---------------------------------------------------------------------------
# index grammar

def _comp(rng, n):
    k = rng.random()
    if k < 0.25:
        v = rng.randrange(-n, n)
        # NumPy integer scalars (loop counters of numpy.arange, argmax results) are ints too
        return np.int64(v) if rng.random() < 0.3 else v
    if k < 0.85:
        start = rng.choice([None, None, 0, 1, -1, -2, n - 1])
        stop = rng.choice([None, None, n, n - 1, -1, 1, 0])
        step = rng.choice([None, None, 1, 2, -1, -2])
        return slice(start, stop, step)
    return slice(None)


def gen_index(rng, shape):
    nd = len(shape)
    k = rng.random()
    if k < 0.12:
        v = rng.randrange(-shape[0], shape[0])
        return np.int64(v) if rng.random() < 0.4 else v
    if k < 0.24:
        return _comp(rng, shape[0])
    if k < 0.3:
        return Ellipsis
    if k < 0.33:
        return None               # bare newaxis
    comps = []
    used_ellipsis = False
    axis = 0
    while axis < nd:
        r = rng.random()
        if r < 0.1 and not used_ellipsis:
            comps.append(Ellipsis)
            used_ellipsis = True
            # ellipsis swallows a random number of axes
            axis += rng.randrange(0, nd - axis + 1)
            continue
        if r < 0.2:
            comps.append(np.newaxis)
            continue
        if rng.random() < 0.25 and axis > 0:
            break
        comps.append(_comp(rng, shape[axis]))
        axis += 1
    return tuple(comps)


def index_repr(idx):
    def one(c):
        if isinstance(c, slice):
            return '%s:%s:%s' % ('' if c.start is None else c.start, '' if c.stop is None else c.stop, '' if c.step is None else c.step)
        if c is Ellipsis:
            return '...'
        if c is None:
            return 'newaxis'
        if isinstance(c, np.integer):
            return 'int64(%d)' % int(c)
        return str(c)
    if isinstance(idx, tuple):
        return '[' + ','.join(one(c) for c in idx) + ']'
    return '[' + one(idx) + ']'


def encode_index(idx):
    """JSON-able form"""
    def one(c):
        if isinstance(c, slice):
            return ['s', c.start, c.stop, c.step]
        if c is Ellipsis:
            return ['e']
        if c is None:
            return ['n']
        if isinstance(c, np.integer):
            return ['I', int(c)]
        return ['i', int(c)]
    if isinstance(idx, tuple):
        return ['t'] + [one(c) for c in idx]
    return one(idx)


def decode_index(e):
    def one(c):
        if c[0] == 's':
            return slice(c[1], c[2], c[3])
        if c[0] == 'e':
            return Ellipsis
        if c[0] == 'n':
            return None
        if c[0] == 'I':
            return np.int64(c[1])
        return int(c[1])
    if e[0] == 't':
        return tuple(one(c) for c in e[1:])
    return one(e)


def valid(idx, shape):
    try:
        np.zeros(shape)[idx]
        return True
    except (IndexError, ValueError):
        return False


# ---------------------------------------------------------------------------

def h_getitem(ctx, shape, indices, D, P):
    algopy = symx.load_algopy()
    shape = tuple(shape)
    X = V(ctx, 'x', (D, P) + shape)
    ref0 = np.arange(int(np.prod(shape))).reshape(shape).astype(float)
    for enc in indices:
        idx = decode_index(enc)
        x = mk_utpm(ctx, algopy, X)
        name = index_repr(idx)
        try:
            y = x[idx]
        except Exception as e:
            ctx.fact(False, 'x%s raised %s (numpy accepts it)' % (name, type(e).__name__))
            continue
        Y = plain(y.data)
        want = X[(slice(None), slice(None)) + (idx if isinstance(idx, tuple) else (idx,))]
        ctx.fact(Y.shape == want.shape, 'x%s shape %s == %s' % (name, Y.shape, want.shape))
        if Y.shape != want.shape:
            continue
        ctx.eq(Y, want, 'x%s' % name)
        # NumPy returns a view for every basic index that selects an array (a scalar copy for a full integer
        # index, where a polynomial-valued result can only be a view): a non-empty selection shares memory
        shares_np = Y.size > 0
        ctx.fact(bool(np.shares_memory(y.data, x.data)) == bool(shares_np), 'x%s shares memory with x (%s)' % (name, shares_np))
        # a write through the view is visible in the parent
        if Y.size:
            W = V(ctx, 'w', Y.shape)
            y[...] = mk_utpm(ctx, algopy, W)
            exp = X.copy()
            exp[(slice(None), slice(None)) + (idx if isinstance(idx, tuple) else (idx,))] = W
            ctx.eq(plain(x.data), exp, 'write through x%s updates the parent' % name)


ADV_INDICES = {
    '[[0,2]]': lambda: ([0, 2],),
    '[array([2,0])]': lambda: (np.array([2, 0]),),
    '[mask]': lambda: (np.array([True, False, True]),),
    '[[1,0],1:]': lambda: ([1, 0], slice(1, None)),
    '[:,[0,2]]': lambda: (slice(None), [0, 2]),
    '[[0,1],[2,0]]': lambda: ([0, 1], [2, 0]),
    # advanced indices SEPARATED by a slice / Ellipsis: NumPy puts the index axes first
    '[0,:,[0,1]]': lambda: (0, slice(None), [0, 1]),
    '[[0,1],:,[1,0]]': lambda: ([0, 1], slice(None), [1, 0]),
    '[[0,1],...,1]': lambda: ([0, 1], Ellipsis, 1),
    '[1,:,mask]': lambda: (1, slice(None), np.array([True, False])),
    '[[1,0],1:,[0]]': lambda: ([1, 0], slice(1, None), [0]),
}
SEPARATED = ('[0,:,[0,1]]', '[[0,1],:,[1,0]]', '[[0,1],...,1]', '[1,:,mask]', '[[1,0],1:,[0]]')


REJECTED = {
    # (shape of x, index, shape of the right-hand side): NumPy raises for a[index] = rhs on every coefficient slice
    'x(3,)[:] = (2,3)': ((3,), (slice(None),), (2, 3)),
    'x(3,)[0] = (2,)': ((3,), (0,), (2,)),
    'x(2,3)[0] = (2,3)': ((2, 3), (0,), (2, 3)),
    'x(3,)[[0,2]] = (2,2)': ((3,), ([0, 2],), (2, 2)),
    'x(2,3)[:,0] = (3,)': ((2, 3), (slice(None), 0), (3,)),
}


def h_setitem_rejected(ctx, case, rhs, D, P):
    """a right-hand side that NumPy cannot broadcast INTO the selection is rejected (ValueError) --
    whatever the number of directions is (a leading axis of the right-hand side must never be
    matched against the direction axis) -- and the target is left unchanged"""
    algopy = symx.load_algopy()
    shape, idx, rshape = REJECTED[case]
    ok = True
    try:
        np.zeros(shape)[idx if len(idx) > 1 else idx[0]] = np.zeros(rshape)
        ok = False
    except ValueError:
        pass
    assert ok, 'harness: NumPy accepts this assignment'
    X = V(ctx, 'x', (D, P) + tuple(shape))
    x = mk_utpm(ctx, algopy, X)
    if rhs == 'utpm':
        r = mk_utpm(ctx, algopy, V(ctx, 'w', (D, P) + tuple(rshape)))
    else:
        r = mk_array(ctx, V(ctx, 'c', tuple(rshape)))
    try:
        x[idx if len(idx) > 1 else idx[0]] = r
        ctx.fact(False, '%s with a %s right-hand side and P = %d is accepted (NumPy raises ValueError)' % (case, rhs, P))
    except ValueError:
        ctx.fact(True, 'rejected')
    ctx.eq(plain(x.data), X, 'target unchanged by the rejected assignment')


def h_sum_axis_rejected(ctx, shape, axis, D, P):
    """an axis outside the shape of the polynomial array is rejected as NumPy rejects it on every
    coefficient slice: it never reaches the direction or the coefficient axis"""
    algopy = symx.load_algopy()
    shape = tuple(shape)
    try:
        np.sum(np.zeros(shape), axis=axis)
        raise AssertionError('harness: NumPy accepts this axis')
    except (ValueError, IndexError):
        pass
    X = V(ctx, 'x', (D, P) + shape)
    x = mk_utpm(ctx, algopy, X)
    for label, call in (('algopy.sum', lambda: algopy.sum(x, axis=axis)), ('x.sum', lambda: x.sum(axis=axis))):
        try:
            y = call()
            ctx.fact(False, '%s(x%s, axis=%s) is accepted (result shape %s), NumPy raises' % (label, shape, axis, np.shape(plain(y.data))[2:]))
        except (ValueError, IndexError):
            ctx.fact(True, 'rejected')
    ctx.eq(plain(x.data), X, 'operand unchanged')


def h_setitem_advanced(ctx, shape, iname, D, P, rhs):
    """item assignment and item access through an ADVANCED index (integer list / array, boolean
    mask, mixed with slices): every coefficient slice [d, p] behaves like the NumPy array"""
    algopy = symx.load_algopy()
    shape = tuple(shape)
    idx = ADV_INDICES[iname]()
    X = V(ctx, 'x', (D, P) + shape)
    x = mk_utpm(ctx, algopy, X)
    sel = X[0, 0][idx]
    tshape = sel.shape
    # access
    g = plain(x[idx if len(idx) > 1 else idx[0]].data)
    ctx.fact(g.shape == (D, P) + tshape, 'x%s shape %s' % (iname, g.shape))
    if g.shape == (D, P) + tshape:
        for d in range(D):
            for p in range(P):
                ctx.eq(g[d, p], X[d, p][idx], 'x%s coefficient [%d,%d]' % (iname, d, p))
    exp = X.copy()
    if rhs == 'utpm':
        W = V(ctx, 'w', (D, P) + tshape)
        x[idx if len(idx) > 1 else idx[0]] = mk_utpm(ctx, algopy, W)
        for d in range(D):
            for p in range(P):
                exp[d, p][idx] = W[d, p]
    elif rhs == 'ndarray':
        C = V(ctx, 'c', tshape)
        x[idx if len(idx) > 1 else idx[0]] = mk_array(ctx, C)
        for p in range(P):
            exp[0, p][idx] = C
            for d in range(1, D):
                exp[d, p][idx] = 0
    else:
        c = ctx.var('c')
        x[idx if len(idx) > 1 else idx[0]] = c
        for p in range(P):
            exp[0, p][idx] = c
            for d in range(1, D):
                exp[d, p][idx] = 0
    ctx.eq(plain(x.data), exp, 'x%s = <%s>' % (iname, rhs))


def h_setitem(ctx, shape, indices, D, P, rhs):
    algopy = symx.load_algopy()
    shape = tuple(shape)
    for k, enc in enumerate(indices):
        idx = decode_index(enc)
        name = index_repr(idx)
        X = V(ctx, 'x%d_' % k, (D, P) + shape)
        x = mk_utpm(ctx, algopy, X)
        full = (slice(None), slice(None)) + (idx if isinstance(idx, tuple) else (idx,))
        tshape = X[full].shape[2:]
        if 0 in tshape:
            continue            # empty selections: outside the bound (stated)
        exp = X.copy()
        try:
            if rhs == 'utpm':
                W = V(ctx, 'w%d_' % k, (D, P) + tshape)
                x[idx] = mk_utpm(ctx, algopy, W)
                exp[full] = W
            elif rhs == 'utpm-broadcast':
                if len(tshape) == 0:
                    continue
                W = V(ctx, 'w%d_' % k, (D, P) + tshape[-1:])
                x[idx] = mk_utpm(ctx, algopy, W)
                for d in range(D):
                    for p in range(P):
                        exp[d, p][idx] = W[d, p]
            elif rhs == 'own-nominal-view':
                # the "freeze" idiom: the constant is a VIEW of the object's own nominal values that
                # overlaps the target, x[idx] = x.data[0, 0][idx]
                if len(tshape) == 0:
                    continue
                x[idx] = x.data[0, 0][idx]
                for p in range(P):
                    exp[0, p][idx] = X[0, 0][idx]
                    for d in range(1, D):
                        exp[d, p][idx] = 0
            elif rhs == 'own-higher-view':
                # the constant is a view of the object's own FIRST-order coefficients
                if len(tshape) == 0 or D < 2:
                    continue
                x[idx] = x.data[1, 0][idx]
                for p in range(P):
                    exp[0, p][idx] = X[1, 0][idx]
                    for d in range(1, D):
                        exp[d, p][idx] = 0
            elif rhs == 'ndarray':
                if len(tshape) == 0:
                    continue
                C = V(ctx, 'c%d_' % k, tshape)
                x[idx] = mk_array(ctx, C)
                for p in range(P):
                    exp[0, p][idx] = C
                    for d in range(1, D):
                        exp[d, p][idx] = 0
            else:
                c = ctx.var('c%d' % k)
                x[idx] = c
                for p in range(P):
                    exp[0, p][idx] = c
                    for d in range(1, D):
                        exp[d, p][idx] = 0
        except Exception as e:
            ctx.fact(False, 'x%s = <%s> raised %s: %s' % (name, rhs, type(e).__name__, str(e)[:100]))
            continue
        ctx.eq(plain(x.data), exp, 'x%s = <%s>' % (name, rhs))


def h_shapeop(ctx, op, shape, D, P, arg=None, cplx=False, operand='owned'):
    """operand: 'owned' (fresh contiguous array) or a non-contiguous basic-indexing view of a
    larger polynomial: 'sub' = trailing block B[1:, 1:], 'step' = B[::2, ::2], 'T' = transpose of
    the array stored with reversed axes, 'rev' = B[::-1] (negative stride)"""
    algopy = symx.load_algopy()
    shape = tuple(shape)
    if operand == 'owned':
        X = V(ctx, 'x', (D, P) + shape, cplx=cplx)
        x = mk_utpm(ctx, algopy, X, complex if cplx else float)
    else:
        if operand == 'sub':
            bshape = tuple(n + 1 for n in shape)
            sl = tuple(slice(1, None) for _ in shape)
        elif operand == 'step':
            bshape = tuple(2 * n for n in shape)
            sl = tuple(slice(None, None, 2) for _ in shape)
        elif operand == 'rev':
            bshape = shape
            sl = tuple(slice(None, None, -1) for _ in shape)
        elif operand == 'T':
            bshape = shape[::-1]
            sl = None
        else:
            raise KeyError(operand)
        B = V(ctx, 'b', (D, P) + bshape, cplx=cplx)
        big = mk_utpm(ctx, algopy, B, complex if cplx else float)
        if sl is None:
            x = big.T
            X = np.transpose(B, (0, 1) + tuple(range(2, B.ndim))[::-1])
        else:
            x = big[sl]
            X = B[(slice(None), slice(None)) + sl]
        ctx.fact(tuple(x.data.shape) == (D, P) + shape, 'view operand has shape %s' % (shape,))
        X = np.array(X, dtype=object)
    view = None
    if op == 'reshape':
        y = algopy.reshape(x, tuple(arg))
        f = lambda a: np.reshape(a, tuple(arg))
        view = True
    elif op == 'reshape-method':
        y = x.reshape(tuple(arg))
        f = lambda a: np.reshape(a, tuple(arg))
        view = True
    elif op == 'transpose':
        y = x.T
        f = lambda a: np.transpose(a)
        view = True
    elif op == 'transpose-fn':
        y = algopy.transpose(x)
        f = lambda a: np.transpose(a)
        view = True
    elif op == 'sum':
        y = algopy.sum(x, axis=arg)
        f = lambda a: np.sum(a, axis=arg)
    elif op == 'tile':
        y = algopy.tile(x, arg)
        f = lambda a: np.tile(a, arg)
    elif op == 'diag':
        k = 0 if arg is None else int(arg)
        y = algopy.diag(x) if arg is None else algopy.diag(x, k)
        f = lambda a: npx.NumpyProxy(npx.STUBS).diag(a, k) if ctx.mode == 'sym' else np.diag(a, k)
    elif op == 'diag-kw':
        k = int(arg)
        y = algopy.diag(x, k=k)
        f = lambda a: npx.NumpyProxy(npx.STUBS).diag(a, k) if ctx.mode == 'sym' else np.diag(a, k)
    elif op in ('reshape-list', 'reshape-npint'):
        # new shape given as a list / as numpy integers (numpy.prod(x.shape), a.shape of another array)
        newshape = list(arg) if op == 'reshape-list' else tuple(np.int64(n) for n in arg)
        if op == 'reshape-npint' and len(arg) == 1:
            newshape = np.int64(arg[0])
        y = algopy.reshape(x, newshape)
        f = lambda a: np.reshape(a, tuple(int(n) for n in arg))
    elif op == 'flat-sum':
        # x.flat / sum of a 0-d or n-d polynomial through the flat view
        y = algopy.sum(x)
        f = lambda a: np.sum(a)
    elif op == 'tril':
        y = algopy.tril(x, arg)
        f = lambda a: _tri(a, arg, True)
    elif op == 'triu':
        y = algopy.triu(x, arg)
        f = lambda a: _tri(a, arg, False)
    elif op == 'trace':
        y = algopy.trace(x)
        f = lambda a: sum(a[i, i] for i in range(min(a.shape)))
    elif op == 'neg':
        y = -x
        f = lambda a: -a
    elif op == 'conjugate':
        y = algopy.conjugate(x)
        f = lambda a: np.conjugate(a)
    elif op == 'real':
        y = algopy.real(x)
        f = lambda a: _parts(a, 're')
    elif op == 'imag':
        y = algopy.imag(x)
        f = lambda a: _parts(a, 'im')
    elif op == 'zeros_like':
        y = algopy.zeros_like(x)
        f = lambda a: np.zeros(a.shape)
    elif op == 'ones_like':
        y = algopy.ones_like(x)
        f = None
    elif op == 'zeros':
        y = algopy.zeros(tuple(arg), dtype=x)
        f = None
    elif op in ('zeros-npint', 'ones-npint'):
        # the shape given as a numpy integer scalar (numpy.prod(...), a.shape product, numpy.int32)
        n = int(arg[0])
        y = (algopy.zeros if op.startswith('zeros') else algopy.ones)(np.int64(n), dtype=x)
        y2 = (algopy.zeros if op.startswith('zeros') else algopy.ones)((np.int32(n),), dtype=x)
        ctx.fact(tuple(y2.data.shape) == (D, P, n), '%s with a (numpy.int32,) tuple: shape %s' % (op, y2.data.shape))
        op = 'zeros' if op.startswith('zeros') else 'ones'
        f = None
    elif op == 'ones':
        y = algopy.ones(tuple(arg), dtype=x)
        f = None
    else:
        raise KeyError(op)
    Y = plain(y.data)
    if op in ('zeros', 'ones', 'ones_like'):
        tshape = tuple(arg) if op != 'ones_like' else shape
        ctx.fact(Y.shape == (D, P) + tshape, '%s shape %s' % (op, Y.shape))
        for d in range(D):
            for p in range(P):
                ctx.eq(Y[d, p], (np.ones(tshape) if (op != 'zeros' and d == 0) else np.zeros(tshape)), '%s[%d,%d]' % (op, d, p))
        return
    for d in range(D):
        for p in range(P):
            ref = f(X[d, p])
            ref = np.asarray(ref, dtype=object)
            ctx.fact(np.shape(Y[d, p]) == ref.shape, '%s(%s) slice shape %s == %s' % (op, arg, np.shape(Y[d, p]), ref.shape))
            if np.shape(Y[d, p]) == ref.shape:
                ctx.eq(Y[d, p], ref, '%s(%s)[%d,%d]' % (op, arg, d, p))
    if view is not None and operand == 'owned':
        r0 = np.zeros(shape)
        npview = np.shares_memory(np.reshape(r0, tuple(arg)) if op.startswith('reshape') else r0.T, r0)
        ctx.fact(bool(np.shares_memory(y.data, x.data)) == bool(npview), '%s returns a view like numpy' % op)
    ctx.eq(plain(x.data), X, '%s leaves its operand alone' % op)


def h_param_sequence(ctx, op, shape, D, P, args):
    """the same operation with a sequence of different parameters (k, axis, repetitions, new
    shape) in ONE process: every call equals NumPy on every slice, whatever was called before"""
    for a in list(args) + list(args)[:1]:
        h_shapeop(ctx, op, shape, D, P, arg=a)


def _tri(a, k, lower):
    a = np.array(a, dtype=object)
    n, m = a.shape
    out = a.copy()
    for i in range(n):
        for j in range(m):
            keep = (j - i <= k) if lower else (j - i >= k)
            if not keep:
                out[i, j] = 0
    return out


def _parts(a, which):
    out = np.empty(a.shape, dtype=object)
    for idx in np.ndindex(*a.shape):
        e = a[idx]
        if isinstance(e, S.SymC):
            out[idx] = e.re if which == 're' else e.im
        elif isinstance(e, complex):
            out[idx] = e.real if which == 're' else e.imag
        else:
            out[idx] = e if which == 're' else 0
    return out


def h_fft(ctx, shape, n, axis, D, P, inverse=False, cplx=False):
    algopy = symx.load_algopy()
    shape = tuple(shape)
    X = V(ctx, 'x', (D, P) + shape, cplx=cplx)
    x = mk_utpm(ctx, algopy, X, complex if cplx else float)
    fn = algopy.fft.ifft if inverse else algopy.fft.fft
    try:
        y = fn(x, n=n, axis=axis)
    except Exception as e:
        ctx.fact(False, '%s(n=%s, axis=%s) raised %s: %s' % ('ifft' if inverse else 'fft', n, axis, type(e).__name__, str(e)[:100]))
        return
    Y = plain(y.data)
    for d in range(D):
        for p in range(P):
            if ctx.mode == 'sym':
                ref = npx._exact_dft(X[d, p], n, axis, inverse)
            else:
                ref = (np.fft.ifft if inverse else np.fft.fft)(np.array(X[d, p].tolist(), dtype=complex), n=n, axis=axis)
            ctx.fact(Y[d, p].shape == np.shape(ref), 'fft slice shape %s == %s' % (Y[d, p].shape, np.shape(ref)))
            if Y[d, p].shape == np.shape(ref):
                ctx.eq(Y[d, p], ref, 'fft[%d,%d]' % (d, p))


def units(tier, seed):
    out = []
    opts = {'property': PROP}

    def add(name, func, o=None, **kw):
        oo = dict(opts)
        oo.update(o or {})
        out.append(Unit('C13/' + name, 'symx.props.c13', func, kw, oo))

    rng = random.Random(1234 + seed)
    shapes = [(3,), (2, 3), (3, 2, 2), (1, 3), (3, 1), (1,)] if tier == 'quick' else [(3,), (2, 3), (3, 2, 2), (4,), (3, 3), (2, 2, 2, 2), (1, 3), (3, 1), (1,), (1, 1)]
    n_idx = 50 if tier == 'quick' else 6000
    D, P = (2, 2)
    for shp in shapes:
        seen = set()
        idxs = []
        tries = 0
        while len(idxs) < n_idx and tries < n_idx * 30:
            tries += 1
            idx = gen_index(rng, shp)
            if not valid(idx, shp):
                continue
            r = index_repr(idx)
            if r in seen:
                continue
            seen.add(r)
            idxs.append(encode_index(idx))
        for b in range(0, len(idxs), 10):
            batch = idxs[b:b + 10]
            add('getitem/%s/batch%d' % (shp, b // 10), 'h_getitem', shape=shp, indices=batch, D=D, P=P)
        for rhs in ('utpm', 'utpm-broadcast', 'ndarray', 'scalar', 'own-nominal-view', 'own-higher-view'):
            for b in range(0, len(idxs), 25):
                batch = idxs[b:b + 25][:: (1 if tier != 'quick' else 2)]
                add('setitem/%s/%s/batch%d' % (shp, rhs, b // 25), 'h_setitem', shape=shp, indices=batch, D=D, P=P, rhs=rhs)
    # advanced indices (integer lists / arrays, boolean masks, mixed with slices): access and assignment
    for iname in ADV_INDICES:
        shp = (3,) if iname in ('[[0,2]]', '[array([2,0])]', '[mask]') else ((2, 3, 2) if iname in SEPARATED else (2, 3))
        for rhs in ('utpm', 'ndarray', 'scalar'):
            add('advanced index %s/%s/%s/D2,P2' % (iname, shp, rhs), 'h_setitem_advanced', shape=shp, iname=iname, D=2, P=2, rhs=rhs)
    for case in REJECTED:
        for rhs in ('utpm', 'ndarray'):
            for P_ in (1, 2, 3):
                add('setitem rejected like NumPy/%s/%s/P%d' % (case, rhs, P_), 'h_setitem_rejected', case=case, rhs=rhs, D=2, P=P_)
    add('advanced index [[0,2]]/(3,)/ndarray/D2,P3', 'h_setitem_advanced', shape=(3,), iname='[[0,2]]', D=2, P=3, rhs='ndarray')
    D, P = (2, 2) if tier == 'quick' else (3, 2)
    for shp, new in [((2, 3), (3, 2)), ((2, 3), (6,)), ((6,), (2, 3)), ((2, 2, 3), (4, 3)), ((2, 3), (-1,)), ((4,), (2, -1))]:
        add('reshape/%s->%s' % (shp, new), 'h_shapeop', op='reshape', shape=shp, D=D, P=P, arg=new)
        add('reshape-method/%s->%s' % (shp, new), 'h_shapeop', op='reshape-method', shape=shp, D=D, P=P, arg=new)
    add('tril with k = 0, -1, 1, 2 in sequence/(3, 3)', 'h_param_sequence', op='tril', shape=(3, 3), D=2, P=2, args=[0, -1, 1, 2])
    add('triu with k = 0, 1, -1, -2 in sequence/(3, 3)', 'h_param_sequence', op='triu', shape=(3, 3), D=2, P=2, args=[0, 1, -1, -2])
    add('tril with k = 1, 0 in sequence/(2, 3)', 'h_param_sequence', op='tril', shape=(2, 3), D=2, P=1, args=[1, 0, -1])
    add('sum over axis 0, 1, None, -1 in sequence/(2, 3)', 'h_param_sequence', op='sum', shape=(2, 3), D=2, P=2, args=[0, 1, None, -1])
    add('tile with reps 2, (2, 1), (1, 2), 3 in sequence/(2,)', 'h_param_sequence', op='tile', shape=(2,), D=2, P=2, args=[2, (2, 1), (1, 2), 3])
    add('reshape to (3, 2), (6,), (1, 6) in sequence/(2, 3)', 'h_param_sequence', op='reshape', shape=(2, 3), D=2, P=2, args=[(3, 2), (6,), (1, 6)])
    add('zeros with shapes (2,), (2, 2), (3,) in sequence', 'h_param_sequence', op='zeros', shape=(2,), D=2, P=2, args=[(2,), (2, 2), (3,)])
    for shp in [(3,), (2, 3), (2, 3, 2), (1, 2), (2, 1), (1,), (1, 1)]:
        add('transpose/%s' % (shp,), 'h_shapeop', op='transpose', shape=shp, D=D, P=P)
        add('transpose-fn/%s' % (shp,), 'h_shapeop', op='transpose-fn', shape=shp, D=D, P=P)
        for ax in [None] + list(range(-len(shp), len(shp))):
            add('sum/%s/axis=%s' % (shp, ax), 'h_shapeop', op='sum', shape=shp, D=D, P=P, arg=ax)
        add('neg/%s' % (shp,), 'h_shapeop', op='neg', shape=shp, D=D, P=P)
        add('zeros_like/%s' % (shp,), 'h_shapeop', op='zeros_like', shape=shp, D=D, P=P)
        add('ones_like/%s' % (shp,), 'h_shapeop', op='ones_like', shape=shp, D=D, P=P)
    for shp, ax in [((3,), -2), ((3,), -3), ((3,), 1), ((2, 3), -3), ((2, 3), -4), ((2, 3), 2), ((), 1), ((2, 3), (0, 0))]:
        add('sum rejects an axis out of range like NumPy/%s/axis=%s' % (shp, ax), 'h_sum_axis_rejected', shape=shp, axis=ax, D=2, P=2)
    for shp, ax in [((2, 3), (0, 1)), ((2, 3, 2), (0, 2)), ((2, 3, 2), (-1, 0)), ((2, 3), (1,))]:
        add('sum/%s/axis=%s' % (shp, ax), 'h_shapeop', op='sum', shape=shp, D=D, P=P, arg=ax)
    for shp, reps in [((2,), 2), ((2,), (2, 2)), ((2, 3), 2), ((2, 3), (2, 1)), ((2, 2), (1, 2, 1)), ((3,), 1)]:
        add('tile/%s/reps=%s' % (shp, reps), 'h_shapeop', op='tile', shape=shp, D=D, P=P, arg=reps)
    for shp in [(3,), (3, 3), (2, 3)]:
        add('diag/%s' % (shp,), 'h_shapeop', op='diag', shape=shp, D=D, P=P)
    for shp in [(3, 3), (2, 3), (3, 2), (3,)]:
        for k in (1, -1, 2):
            add('diag/%s/k=%d' % (shp, k), 'h_shapeop', op='diag', shape=shp, D=D, P=P, arg=k)
    add('diag/(3, 3)/k=1 as keyword', 'h_shapeop', op='diag-kw', shape=(3, 3), D=D, P=P, arg=1)
    add('reshape/(2, 3)->[3, 2] (list)', 'h_shapeop', op='reshape-list', shape=(2, 3), D=D, P=P, arg=(3, 2))
    add('reshape/(2, 3)->(int64(3), int64(2))', 'h_shapeop', op='reshape-npint', shape=(2, 3), D=D, P=P, arg=(3, 2))
    add('reshape/(2, 3)->int64(6)', 'h_shapeop', op='reshape-npint', shape=(2, 3), D=D, P=P, arg=(6,))
    add('sum/()/0-d polynomial', 'h_shapeop', op='flat-sum', shape=(), D=D, P=P)
    add('sum/(1,)/size-1 polynomial', 'h_shapeop', op='flat-sum', shape=(1,), D=D, P=P)
    # operands that are non-contiguous views of a larger polynomial
    for operand in ('sub', 'step', 'T', 'rev'):
        for shp in [(3, 3), (2, 3), (3,)]:
            add('diag/%s/operand is a %s view' % (shp, operand), 'h_shapeop', op='diag', shape=shp, D=2, P=2, operand=operand)
        for shp in [(2, 3), (3, 2)]:
            add('trace/%s/operand is a %s view' % (shp, operand), 'h_shapeop', op='trace', shape=shp, D=2, P=2, operand=operand)
            add('tril/%s/k=1/operand is a %s view' % (shp, operand), 'h_shapeop', op='tril', shape=shp, D=2, P=2, arg=1, operand=operand)
            add('triu/%s/k=-1/operand is a %s view' % (shp, operand), 'h_shapeop', op='triu', shape=shp, D=2, P=2, arg=-1, operand=operand)
            add('sum/%s/axis=0/operand is a %s view' % (shp, operand), 'h_shapeop', op='sum', shape=shp, D=2, P=2, arg=0, operand=operand)
            add('sum/%s/axis=None/operand is a %s view' % (shp, operand), 'h_shapeop', op='sum', shape=shp, D=2, P=2, arg=None, operand=operand)
            add('tile/%s/(2,1)/operand is a %s view' % (shp, operand), 'h_shapeop', op='tile', shape=shp, D=2, P=2, arg=(2, 1), operand=operand)
            add('neg/%s/operand is a %s view' % (shp, operand), 'h_shapeop', op='neg', shape=shp, D=2, P=2, operand=operand)
            add('reshape/%s->(6,)/operand is a %s view' % (shp, operand), 'h_shapeop', op='reshape', shape=shp, D=2, P=2, arg=(6,), operand=operand)
    for shp in [(3, 3), (2, 3), (3, 2)]:
        for k in (-1, 0, 1, 2):
            add('tril/%s/k=%d' % (shp, k), 'h_shapeop', op='tril', shape=shp, D=D, P=P, arg=k)
            add('triu/%s/k=%d' % (shp, k), 'h_shapeop', op='triu', shape=shp, D=D, P=P, arg=k)
    for shp in [(2, 2), (3, 3), (5, 2), (2, 5), (4, 1), (3, 2)]:
        add('trace/%s' % (shp,), 'h_shapeop', op='trace', shape=shp, D=D, P=P)
    add('zeros(numpy.int64(3), dtype=x)', 'h_shapeop', op='zeros-npint', shape=(2,), D=D, P=P, arg=(3,))
    add('ones(numpy.int64(2), dtype=x)', 'h_shapeop', op='ones-npint', shape=(2,), D=D, P=P, arg=(2,))
    for tshape in [(2,), (2, 3), (1,)]:
        add('zeros(%s, dtype=x)' % (tshape,), 'h_shapeop', op='zeros', shape=(2,), D=D, P=P, arg=tshape)
        add('ones(%s, dtype=x)' % (tshape,), 'h_shapeop', op='ones', shape=(2,), D=D, P=P, arg=tshape)
    for shp in [(2,), (2, 2)]:
        for op in ('conjugate', 'real', 'imag', 'neg', 'transpose', 'tile'):
            add('%s/complex/%s' % (op, shp), 'h_shapeop', op=op, shape=shp, D=D, P=P, cplx=True, arg=2 if op == 'tile' else None)
        add('sum/complex/%s' % (shp,), 'h_shapeop', op='sum', shape=shp, D=D, P=P, cplx=True, arg=0)
    for shp, n, ax in [((4,), None, -1), ((2,), None, -1), ((4, 2), None, 0), ((2, 4), None, -1), ((2, 4), None, 0), ((4,), 2, -1), ((2,), 4, -1), ((3, 2), 4, 0)]:
        for inv in (False, True):
            for cplx in ((False, True) if not inv else (True,)):
                add('%s/%s,n=%s,axis=%s,%s' % ('ifft' if inv else 'fft', shp, n, ax, 'complex' if cplx else 'real'), 'h_fft',
                    shape=shp, n=n, axis=ax, D=2, P=2, inverse=inv, cplx=cplx)
    return out
