"""C04  Graph derivative drivers return the derivatives at the requested point.

Per program R^N -> R^M, recording kind and driver: the graph is recorded at an
independent symbolic point r; the driver is called at a symbolic point x (and
symbolic vectors v, w).  Oracle: symbolic first/second derivatives (diff.py) of
the direct evaluation of the program on plain symbolic arrays.  The obligation
driver(x) == oracle(x) also shows independence from the recording point (the
oracle does not mention r)."""
import numpy as np

import symx
from .. import sym as S
from .. import diff, npx, ops as O
from .. import programs as PR
from ..runner import Unit
from .common import plain
from .c03 import Namespace, make_consts, get_prog, record
from .c05 import make_value

PROP = 'C04'
EXPLANATION = ('C04: programs, recording kinds and drivers are enumerated; recording point, evaluation point and the '
               'vectors v, w are independent symbols.  Float replays use central differences of the direct evaluation.')

SCALAR_PROGS = ['sum', 'prod', 'x[0]*x[1]', 'log(sum sq)', 'sum(x*exp(x)/(1+x0*x1)+sin(x)*x[::-1])', 'dot(vec,vec)',
                'x[-1]', 'buffer-overwrite']
VECTOR_PROGS = ['x*x', 'x*x[::-1]', 'x/(1+x*x)', 'exp', 'sin(x)*x', 'exp(dot)', 'buffer', 'x*x[0] (broadcast)',
                'x[1:]*x[:-1]', 'x**3', 'carr*x', 'x/carr', 'tile', 'sqrt(x)*x[0]', 'tan(x)*x']


MATRIX_VALUED = ('buffer, vector broadcast into columns', 'buffer, vector broadcast into rows')


def _flat(y):
    return np.asarray(plain(np.asarray(y, dtype=object)), dtype=object).ravel()


def direct(ctx, algopy, A, prog, xs):
    """program on a plain array -> flat list of output terms / floats"""
    if ctx.mode == 'sym':
        y = prog.f(A, npx.sarr(np.array(xs, dtype=object), float))
        return [S.lift(e) for e in _flat(y)]
    y = prog.f(A, np.array(xs, dtype=float))
    return [float(e) for e in np.asarray(y, dtype=float).ravel()]


def jacobian_oracle(ctx, algopy, A, prog, xs):
    N = len(xs)
    if ctx.mode == 'sym':
        ys = direct(ctx, algopy, A, prog, xs)
        J = np.empty((len(ys), N), dtype=object)
        for n in range(N):
            col = diff.d(ys, {xs[n].a[0]: S.const(1)})
            for m in range(len(ys)):
                J[m, n] = col[m]
        return ys, J
    h = 1e-6
    x0 = np.array(xs, dtype=float)
    ys = direct(ctx, algopy, A, prog, x0)
    J = np.empty((len(ys), N))
    for n in range(N):
        e = np.zeros(N)
        e[n] = h
        J[:, n] = (np.array(direct(ctx, algopy, A, prog, x0 + e)) - np.array(direct(ctx, algopy, A, prog, x0 - e))) / (2 * h)
    return ys, J


def hessian_oracle(ctx, algopy, A, prog, xs, w=None):
    """Hessian of sum_m w_m y_m (w = None: scalar program)"""
    N = len(xs)
    if ctx.mode == 'sym':
        ys = direct(ctx, algopy, A, prog, xs)
        f = ys[0] if w is None else sum(wi * yi for wi, yi in zip(w, ys))
        g = [diff.d([f], {xs[n].a[0]: S.const(1)})[0] for n in range(N)]
        H = np.empty((N, N), dtype=object)
        for n in range(N):
            col = diff.d(g, {xs[n].a[0]: S.const(1)})
            for m in range(N):
                H[m, n] = col[m]
        return H
    h = 1e-4
    x0 = np.array(xs, dtype=float)

    def f(x):
        ys = np.array(direct(ctx, algopy, A, prog, x))
        return ys[0] if w is None else float(np.dot(np.array(w, dtype=float), ys))
    H = np.empty((N, N))
    for i in range(N):
        for j in range(N):
            ei = np.zeros(N)
            ej = np.zeros(N)
            ei[i] = h
            ej[j] = h
            H[i, j] = (f(x0 + ei + ej) - f(x0 + ei - ej) - f(x0 - ei + ej) + f(x0 - ei - ej)) / (4 * h * h)
    return H


def _vec(ctx, name, n):
    return [ctx.var('%s[%d]' % (name, i)) for i in range(n)]


def _arr(ctx, v):
    if ctx.mode == 'sym':
        return npx.sarr(np.array(v, dtype=object), float)
    return np.array(v, dtype=float)


def h_driver(ctx, pname, rec, driver, intx=False):
    algopy = symx.load_algopy()
    prog = get_prog(pname)
    A = Namespace(algopy, make_consts(ctx, prog))
    rec = tuple(rec) if not isinstance(rec, str) else rec
    arg, R = make_value(ctx, prog, rec, 'r')
    cg, fx, fy = record(ctx, algopy, A, prog, O.wrap(ctx, algopy, arg, R))
    N = int(np.prod(prog.shape))
    M = int(fy.size) if hasattr(fy, 'size') else 1
    if intx:
        # integer-typed evaluation point (a list of ints / an integer array)
        xs = [S.const(k) if ctx.mode == 'sym' else float(k) for k in (1, 2, 3)[:N]]
        xs_names = None
        x = np.array([1, 2, 3][:N]) if intx == 'array' else [1, 2, 3][:N]
        X = ctx.array('xsym', (N,))          # symbols standing for the point in the oracle
        for i in range(N):
            ctx.assume(X[i] == (1, 2, 3)[i]) if ctx.mode == 'sym' else None
        if ctx.mode == 'sym':
            xs = list(X)
        else:
            xs = [1.0, 2.0, 3.0][:N]
    else:
        xarg, X = make_value(ctx, prog, 'nd', 'x')
        xs = list(X.ravel())
        x = _arr(ctx, xs)
    try:
        if driver == 'gradient':
            g = cg.gradient(x)
            ys, J = jacobian_oracle(ctx, algopy, A, prog, xs)
            ctx.eq(_flat(g), J[0], 'gradient')
        elif driver == 'gradient(list)':
            g = cg.gradient([x])
            ys, J = jacobian_oracle(ctx, algopy, A, prog, xs)
            ctx.eq(_flat(g[0]), J[0], 'gradient([x])')
        elif driver == 'jacobian':
            Jd = cg.jacobian(x)
            ys, J = jacobian_oracle(ctx, algopy, A, prog, xs)
            ctx.eq(np.asarray(plain(Jd), dtype=object).reshape(J.shape), J, 'jacobian')
        elif driver == 'jac_vec':
            v = _vec(ctx, 'v', N)
            r = cg.jac_vec(x, _arr(ctx, v))
            ys, J = jacobian_oracle(ctx, algopy, A, prog, xs)
            ref = [sum(J[m, n] * v[n] for n in range(N)) for m in range(J.shape[0])]
            ctx.eq(_flat(r), np.array(ref, dtype=object), 'jac_vec')
        elif driver == 'vec_jac':
            w = _vec(ctx, 'w', M)
            r = cg.vec_jac(_arr(ctx, w), x)
            ys, J = jacobian_oracle(ctx, algopy, A, prog, xs)
            ref = [sum(w[m] * J[m, n] for m in range(M)) for n in range(N)]
            ctx.eq(_flat(r), np.array(ref, dtype=object), 'vec_jac')
        elif driver == 'hessian':
            Hd = cg.hessian(x)
            H = hessian_oracle(ctx, algopy, A, prog, xs)
            ctx.eq(np.asarray(plain(Hd), dtype=object), H, 'hessian')
        elif driver == 'hess_vec':
            v = _vec(ctx, 'v', N)
            r = cg.hess_vec(x, _arr(ctx, v))
            H = hessian_oracle(ctx, algopy, A, prog, xs)
            ref = [sum(H[m, n] * v[n] for n in range(N)) for m in range(N)]
            ctx.eq(_flat(r), np.array(ref, dtype=object), 'hess_vec')
        elif driver == 'vec_hess':
            w = _vec(ctx, 'w', M)
            r = cg.vec_hess(_arr(ctx, w), x)
            H = hessian_oracle(ctx, algopy, A, prog, xs, w=w)
            ctx.eq(np.asarray(plain(r), dtype=object).reshape(H.shape), H, 'vec_hess')
        elif driver == 'vec_hess_vec':
            w = _vec(ctx, 'w', M)
            v = _vec(ctx, 'v', N)
            r = cg.vec_hess_vec(_arr(ctx, w), x, _arr(ctx, v))
            H = hessian_oracle(ctx, algopy, A, prog, xs, w=w)
            ref = [sum(H[m, n] * v[n] for n in range(N)) for m in range(N)]
            ctx.eq(_flat(r), np.array(ref, dtype=object), 'vec_hess_vec')
        elif driver.startswith('jacobian(utpm'):
            # Taylor expansion of every Jacobian entry along a curve
            import re as _re
            mm = _re.search(r'D(\d+),P(\d+)', driver)
            D, P = int(mm.group(1)), int(mm.group(2))
            carg = O.Arg('utpm', prog.shape, prog.dom)
            C = O.make_input(ctx, carg, 'c', D, P)
            Jt = cg.jacobian(O.wrap(ctx, algopy, carg, C))
            JT = plain(Jt.data)
            for p in range(P):
                x0 = list(C[0, p].ravel())
                x1 = list(C[1, p].ravel())
                if ctx.mode == 'sym':
                    ys = direct(ctx, algopy, A, prog, x0)
                    J0 = np.empty((len(ys), N), dtype=object)
                    for n in range(N):
                        col = diff.d(ys, {x0[n].a[0]: S.const(1)})
                        for m in range(len(ys)):
                            J0[m, n] = col[m]
                    seed = dict((x0[n].a[0], x1[n]) for n in range(N))
                    J1 = np.array(diff.d(list(J0.ravel()), seed), dtype=object).reshape(J0.shape)
                else:
                    _, J0 = jacobian_oracle(ctx, algopy, A, prog, x0)
                    h = 1e-5
                    _, Jp = jacobian_oracle(ctx, algopy, A, prog, list(np.array(x0) + h * np.array(x1)))
                    _, Jm = jacobian_oracle(ctx, algopy, A, prog, list(np.array(x0) - h * np.array(x1)))
                    J1 = (Jp - Jm) / (2 * h)
                ctx.eq(np.asarray(JT[0, p], dtype=object).reshape(J0.shape), J0, 'jacobian(curve) order 0 dir %d' % p)
                ctx.eq(np.asarray(JT[1, p], dtype=object).reshape(J0.shape), J1, 'jacobian(curve) order 1 dir %d' % p)
                if D >= 3:
                    x2 = list(C[2, p].ravel())
                    if ctx.mode == 'sym':
                        seed2 = dict((x0[n].a[0], x2[n]) for n in range(N))
                        Ja = np.array(diff.d(list(J0.ravel()), seed2), dtype=object).reshape(J0.shape)
                        Jb = np.array(diff.d(list(J1.ravel()), seed), dtype=object).reshape(J0.shape)
                        J2 = Ja + Jb * S.const(1) / 2
                    else:
                        h = 1e-3
                        def Jat(t):
                            return jacobian_oracle(ctx, algopy, A, prog, list(np.array(x0) + t * np.array(x1) + t * t * np.array(x2)))[1]
                        J2 = (Jat(h) + Jat(-h) - 2 * Jat(0.0)) / (2 * h * h)
                    ctx.eq(np.asarray(JT[2, p], dtype=object).reshape(J0.shape), J2, 'jacobian(curve) order 2 dir %d' % p)
        else:
            raise KeyError(driver)
        # a result handed out by a driver keeps its value when the driver is called again elsewhere
        if driver in ('gradient', 'jacobian', 'vec_jac', 'hessian', 'hess_vec') and not intx:
            x2arg, X2 = make_value(ctx, prog, 'nd', 'xx')
            x2 = _arr(ctx, list(X2.ravel()))
            if driver == 'gradient':
                first = cg.gradient(x)
                keep = np.array(plain(np.asarray(first, dtype=object)), dtype=object).copy()
                cg.gradient(x2)
            elif driver == 'jacobian':
                first = cg.jacobian(x)
                keep = np.array(plain(np.asarray(first, dtype=object)), dtype=object).copy()
                cg.jacobian(x2)
            elif driver == 'vec_jac':
                first = cg.vec_jac(_arr(ctx, w), x)
                keep = np.array(plain(np.asarray(first, dtype=object)), dtype=object).copy()
                cg.vec_jac(_arr(ctx, w), x2)
            elif driver == 'hessian':
                first = cg.hessian(x)
                keep = np.array(plain(np.asarray(first, dtype=object)), dtype=object).copy()
                cg.hessian(x2)
            else:
                first = cg.hess_vec(x, _arr(ctx, v))
                keep = np.array(plain(np.asarray(first, dtype=object)), dtype=object).copy()
                cg.hess_vec(x2, _arr(ctx, v))
            ctx.eq(plain(np.asarray(first, dtype=object)), keep, '%s: result still intact after a second call at another point' % driver)
    except Exception as e:
        if isinstance(e, KeyError):
            raise
        last = [l for l in str(e).strip().splitlines() if l.strip()]
        ctx.fact(False, '%s raised %s: %s' % (driver, type(e).__name__, last[-1][:200] if last else ''))


def h_complex_arguments(ctx):
    """the drivers at complex points and with complex vectors v, w (the recorded polynomial program
    has the same closed-form derivatives over C): nothing is truncated to its real part.  Concrete
    numbers: decided on the float build."""
    algopy = symx.load_algopy()
    if ctx.mode == 'sym':
        ctx.fact(True, 'complex arguments: decided on the float build')
        ctx.eq(S.const(0), S.const(0), 'drivers with complex arguments')
        return
    f = lambda x: algopy.zeros(2, dtype=x) + x[0] * x[0] * x[1] + x[1] * x[1] * x[1] + 2. * x[0]
    F = lambda x: (lambda y: (y.__setitem__(0, x[0] * x[0] * x[1] + 2. * x[0]), y.__setitem__(1, x[1] * x[1] * x[1] * x[0]), y)[2])(algopy.zeros(2, dtype=x))
    J = lambda a, b: np.array([[2 * a * b + 2., a * a], [b ** 3, 3 * a * b * b]])
    H0 = lambda a, b: np.array([[2 * b, 2 * a], [2 * a, 0.]])
    H1 = lambda a, b: np.array([[0., 3 * b * b], [3 * b * b, 6 * a * b]])
    cg = algopy.CGraph()
    fx = algopy.Function(np.array([0.5, 1.5]))
    fy = F(fx)
    cg.trace_off()
    cg.independentFunctionList = [fx]
    cg.dependentFunctionList = [fy]
    cgs = algopy.CGraph()
    gx = algopy.Function(np.array([0.5, 1.5]))
    gy = gx[0] * gx[0] * gx[1] + gx[1] * gx[1] * gx[1] + 2. * gx[0]
    cgs.trace_off()
    cgs.independentFunctionList = [gx]
    cgs.dependentFunctionList = [gy]
    gs = lambda a, b: np.array([2 * a * b + 2., a * a + 3 * b * b])
    Hs = lambda a, b: np.array([[2 * b, 2 * a], [2 * a, 6 * b]])
    zc, xr = np.array([1 + 2j, 3 - 1j]), np.array([1.5, -2.0])
    vc, vr = np.array([0.5 - 1j, 2 + 0.25j]), np.array([0.5, -2.0])
    wc, wr = np.array([1 - 1j, 0.5j]), np.array([2.0, -1.0])
    for label, x, v, w in (('complex point', zc, vr, wr), ('complex v', xr, vc, wr), ('complex w', xr, vr, wc), ('all complex', zc, vc, wc)):
        a, b = complex(x[0]), complex(x[1])
        same = lambda got, ref, what: ctx.eq(np.asarray(got, dtype=complex), np.asarray(ref, dtype=complex), '%s: %s' % (label, what))
        try:
            same(cg.jacobian(x), J(a, b), 'jacobian')
            same(cg.jac_vec(x, v), J(a, b).dot(v), 'jac_vec')
            same(cg.vec_jac(w, x), w.dot(J(a, b)), 'vec_jac')
            same(cg.vec_hess_vec(w, x, v), (w[0] * H0(a, b) + w[1] * H1(a, b)).dot(v), 'vec_hess_vec')
            same(cgs.gradient(x), gs(a, b), 'gradient')
            same(cgs.hessian(x), Hs(a, b), 'hessian')
            same(cgs.hess_vec(x, v), Hs(a, b).dot(v), 'hess_vec')
        except Exception as e:
            ctx.fact(False, '%s raised %s: %s' % (label, type(e).__name__, str(e).strip().splitlines()[-1][:100] if str(e).strip() else ''))


def h_input_kept(ctx, driver):
    """a program that writes into its independent variable (x[0] = x[0]*x[1]; ...): every driver
    leaves the caller's array as it was and returns the same result when called again with it"""
    algopy = symx.load_algopy()
    from .common import mk_array
    R = np.array([ctx.var('r%d' % i) for i in range(3)], dtype=object)
    Xv = np.array([ctx.var('x%d' % i) for i in range(3)], dtype=object)

    def prog(x):
        x[0] = x[0] * x[1]
        x[2] = x[2] * x[0]
        return algopy.sum(x * x)
    cg = algopy.CGraph()
    fx = algopy.Function(mk_array(ctx, R))
    fy = prog(fx)
    cg.trace_off()
    cg.independentFunctionList = [fx]
    cg.dependentFunctionList = [fy]
    a = mk_array(ctx, Xv)
    call = {'gradient': lambda: cg.gradient(a), 'jacobian': lambda: cg.jacobian(a), 'hessian': lambda: cg.hessian(a),
            'vec_jac': lambda: cg.vec_jac(np.array([1.0]), a)}[driver]
    first = np.array(plain(np.asarray(call(), dtype=object)), dtype=object).copy()
    ctx.eq(plain(np.asarray(a, dtype=object)), Xv, 'the point handed to %s is unchanged' % driver)
    second = np.array(plain(np.asarray(call(), dtype=object)), dtype=object)
    ctx.eq(second, first, 'second call of %s with the same array == first call' % driver)
    # reference: derivatives of the direct evaluation
    x0, x1, x2 = Xv
    f = lambda u0, u1, u2: (u0 * u1) ** 2 + u1 ** 2 + (u2 * u0 * u1) ** 2
    if driver in ('gradient', 'jacobian', 'vec_jac'):
        if ctx.mode == 'sym':
            ref = diff.d([S.lift(f(x0, x1, x2))], {})
        g = [2 * x0 * x1 * x1 + 2 * x2 * x2 * x0 * x1 * x1, 2 * x0 * x0 * x1 + 2 * x1 + 2 * x2 * x2 * x0 * x0 * x1, 2 * x2 * x0 * x0 * x1 * x1]
        ctx.eq(first.ravel(), np.array(g, dtype=object), '%s of a program that writes into its input' % driver)


def units(tier, seed):
    out = []
    opts = {'property': PROP, 'float_tol': 5e-5, 'path_budget': 200}
    recs = ['nd', ('utpm', 1, 1), ('utpm', 2, 2)]
    sprogs = SCALAR_PROGS if tier != 'quick' else SCALAR_PROGS[:6] + ['buffer-overwrite']
    vprogs = VECTOR_PROGS if tier != 'quick' else VECTOR_PROGS[:9] + ['tan(x)*x']
    k = 0
    for pn in sprogs:
        for drv in ['gradient', 'gradient(list)', 'hessian', 'hess_vec', 'jacobian', 'vec_jac', 'jac_vec']:
            rec = recs[k % 3]
            k += 1
            rs = recs if tier != 'quick' and drv in ('gradient', 'hessian') else [rec]
            for r in rs:
                out.append(Unit('C04/%s/%s/rec=%s' % (pn, drv, r), 'symx.props.c04', 'h_driver', {'pname': pn, 'rec': r, 'driver': drv}, dict(opts)))
    for pn in vprogs:
        for drv in ['jacobian', 'jac_vec', 'vec_jac', 'vec_hess', 'vec_hess_vec', 'jacobian(utpm D2,P2)']:
            rec = recs[k % 3]
            k += 1
            out.append(Unit('C04/%s/%s/rec=%s' % (pn, drv, rec), 'symx.props.c04', 'h_driver', {'pname': pn, 'rec': rec, 'driver': drv}, dict(opts)))
    for pn, drvs in [('log(sum sq)', ['gradient', 'hessian', 'hess_vec', 'vec_jac', 'jac_vec', 'jacobian']),
                     ('x/(1+x*x)', ['jacobian', 'jac_vec', 'vec_jac', 'vec_hess', 'vec_hess_vec'])]:
        for drv in drvs:
            for kind in (['array'] if tier == 'quick' else ['array', 'list']):
                out.append(Unit('C04/%s/%s/integer-typed x (%s)' % (pn, drv, kind), 'symx.props.c04', 'h_driver',
                                {'pname': pn, 'rec': ('utpm', 1, 1), 'driver': drv, 'intx': kind}, dict(opts)))
    for pn in ['x*x', 'exp', 'x/(1+x*x)', 'exp(dot)', 'sin(x)*x']:
        out.append(Unit('C04/%s/jacobian(utpm D3,P1)/rec=nd' % pn, 'symx.props.c04', 'h_driver',
                        {'pname': pn, 'rec': 'nd', 'driver': 'jacobian(utpm D3,P1)'}, dict(opts, float_tol=2e-4)))
    # every buffer / indexing program of the catalogue through one driver each (all drivers in the thorough tier)
    from .. import programs as PRG
    vdrv = ['jacobian', 'vec_jac', 'vec_hess', 'jac_vec', 'vec_hess_vec']
    for prog in PRG.catalogue():
        if prog.group not in ('buffer', 'index') or 'utpmonly' in prog.tags or prog.name in sprogs or prog.name in vprogs:
            continue
        if len(prog.shape) != 1 or prog.name in MATRIX_VALUED:
            continue      # (the drivers are defined for functions R^N -> R^M)
        for j, drv in enumerate(vdrv):
            if tier == 'quick' and j != k % len(vdrv):
                continue
            out.append(Unit('C04/%s/%s/rec=%s' % (prog.name, drv, recs[k % 3]), 'symx.props.c04', 'h_driver',
                            {'pname': prog.name, 'rec': recs[k % 3], 'driver': drv}, dict(opts)))
        k += 1
    for drv in ('gradient', 'jacobian', 'hessian', 'vec_jac'):
        if drv == 'gradient':
            out.append(Unit('C04/drivers with complex points and complex vectors (float-decided)', 'symx.props.c04', 'h_complex_arguments', {}, dict(opts)))
        out.append(Unit('C04/program writing into its independent variable/%s called twice with one array' % drv, 'symx.props.c04', 'h_input_kept', {'driver': drv}, dict(opts)))
    nrand = 6 if tier == 'quick' else 150
    for i in range(nrand):
        name = 'random(seed=%d,len=%d)' % (7000 + 1000 * seed + i, 3 + i % 5)
        for drv in ['jacobian', 'vec_hess']:
            if drv == 'vec_hess' and (3 + i % 5) > 4:
                continue        # second derivatives of longer compositions exceed the solver cap
            out.append(Unit('C04/%s/%s/rec=%s' % (name, drv, recs[i % 3]), 'symx.props.c04', 'h_driver',
                            {'pname': name, 'rec': recs[i % 3], 'driver': drv}, dict(opts)))
    return out
