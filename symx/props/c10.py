"""C10  Zeroth coefficient, shapes and comparisons follow NumPy.

(a) zeroth coefficient of every catalogued operation == NumPy applied by the
    harness to the zeroth-coefficient symbolic arrays of each direction
    (different base points per direction); shape/len/size/ndim == NumPy's;
(b) comparison operators: on every explored path the returned truth value is
    proved equal to the conjunction over all elements of the NumPy comparison
    of zeroth coefficients (UTPM/UTPM, UTPM/scalar, Function operands); a
    data-dependent branch takes the same path with ndarray, UTPM and Function;
(c) plain symbolic arrays/scalars through algopy.<f> == through numpy/scipy.<f>."""
import operator

import numpy as np

import symx
from .. import sym as S
from .. import npx, ops as O
from ..runner import Unit
from .common import mk_utpm, mk_array, plain

PROP = 'C10'
EXPLANATION = 'C10: operations, shapes and operand kinds enumerated; values symbolic; comparison paths by forking.'
ASSUMPTIONS = ['zeroth coefficients of LAPACK-backed functions are compared with the exact inverse / Cramer solution '
               '(numpy.linalg on symbolic data is a stub on both sides)']


def np_reference(op, args):
    if op.name.startswith('inv'):
        return npx.exact_inv(args[0]) if _sym(args[0]) else np.linalg.inv(np.array(args[0].tolist(), dtype=float))
    if op.name.startswith('solve'):
        if any(_sym(a) for a in args):
            return npx.exact_solve(args[0], args[1])
        return np.linalg.solve(np.array(args[0].tolist(), dtype=float), np.array(args[1].tolist(), dtype=float))
    if op.name == 'det' and _sym(args[0]):
        a = np.asarray(args[0], dtype=object)
        return a[0, 0] * a[1, 1] - a[0, 1] * a[1, 0]
    if op.group == 'fft' and _sym(args[0]):
        # numpy.fft on symbols: the exact DFT sum (n in {1, 2, 4})
        return npx._exact_dft(args[0], op.meta.get('n'), op.meta.get('axis', -1), op.meta['inverse'])
    return op.npfn(*args)


def _sym(a):
    return any(isinstance(e, (S.Sym, S.SymC)) for e in np.asarray(a, dtype=object).ravel())


def _num(a):
    a = np.asarray(a, dtype=object)
    if a.dtype == object and not _sym(a):
        cplx = any(isinstance(e, complex) for e in a.ravel())
        return np.array(a.tolist(), dtype=complex if cplx else float).reshape(a.shape)
    return a


def h_zeroth(ctx, opname, D, P, scale=None):
    algopy = symx.load_algopy()
    op = O.by_name()[opname]
    raw = [O.make_input(ctx, a, 'a%d' % k, D, P) for k, a in enumerate(op.args)]
    if scale is not None:
        # arguments of tiny magnitude: x_0 = scale * t with t in the unit box.  The float replay
        # compares with NumPy to a RELATIVE tolerance there (opts float_rel), which separates
        # log1p(x) from log(1 + x), expm1(x) from exp(x) - 1, ...
        from fractions import Fraction
        c = S.const(Fraction(scale)) if ctx.mode == 'sym' else float(Fraction(scale))
        for k, a in enumerate(op.args):
            if a.kind == 'utpm':
                for idx in np.ndindex(*raw[k][0].shape):
                    t = raw[k][0][idx]
                    ctx.assume(t > 0)
                    ctx.assume(t < 1)
                    raw[k][0][idx] = t * c
    if 'neq' in op.tags:
        for idx in np.ndindex(*raw[0][0].shape):
            ctx.assume(raw[0][0][idx] != raw[1][0][idx])
    if 'distinct' in op.tags:
        z = raw[0][0]
        for p_ in range(z.shape[0]):
            for i in range(z.shape[1]):
                for j in range(i):
                    ctx.assume(z[p_, i] != z[p_, j])
    y = op.fn(algopy, *[O.wrap(ctx, algopy, a, r) for a, r in zip(op.args, raw)])
    ctx.fact(isinstance(y, algopy.UTPM), 'result is a UTPM')
    if not isinstance(y, algopy.UTPM):
        return
    Y = plain(y.data)
    for p in range(P):
        args = []
        for a, r in zip(op.args, raw):
            if a.kind == 'utpm':
                args.append(_num(r[0, p]) if ctx.mode == 'float' else r[0, p])
            elif a.kind == 'ndarray':
                args.append(_num(r) if ctx.mode == 'float' else r)
            else:
                args.append(r)
        ref = np_reference(op, args)
        refa = np.asarray(ref, dtype=object)
        ctx.fact(Y[0, p].shape == refa.shape, '%s: coefficient shape %s == numpy %s' % (opname, Y[0, p].shape, refa.shape))
        if Y[0, p].shape == refa.shape:
            ctx.eq(Y[0, p], refa, '%s zeroth coefficient dir %d' % (opname, p))
        if p == 0:
            ctx.fact(tuple(y.shape) == refa.shape, 'shape %s == %s' % (y.shape, refa.shape))
            ctx.fact(y.ndim == refa.ndim, 'ndim')
            ctx.fact(y.size == refa.size, 'size')
            if refa.ndim:
                ctx.fact(len(y) == len(refa), 'len')


CMP = {'<': operator.lt, '<=': operator.le, '>': operator.gt, '>=': operator.ge, '==': operator.eq}


def _conj(ctx, cmpop, A, B):
    """conjunction over all elements of the NumPy comparison of zeroth coefficients"""
    A = np.asarray(A, dtype=object)
    B = np.broadcast_to(np.asarray(B, dtype=object), A.shape)
    conj = None
    for idx in np.ndindex(*A.shape):
        c = CMP[cmpop](A[idx], B[idx])
        if c is True:
            continue
        if c is False:
            return False
        conj = c if conj is None else (conj & c)
    return True if conj is None else conj


def h_compare(ctx, cmpop, rkind, shape, D, P, rshape=None):
    """rshape: shape of the right operand when it differs from the left one (NumPy broadcasting
    of the zeroth coefficients, separately in every direction)"""
    algopy = symx.load_algopy()
    shape = tuple(shape)
    X = O.make_input(ctx, O.Arg('utpm', shape), 'x', D, P)
    x = mk_utpm(ctx, algopy, X)
    if rshape is not None:
        rshape = tuple(rshape)
        if rkind == 'utpm':
            Yv = O.make_input(ctx, O.Arg('utpm', rshape), 'y', D, P)
            y = mk_utpm(ctx, algopy, Yv)
            y0s = [Yv[0, p] for p in range(P)]
        else:
            Yv = O.make_input(ctx, O.Arg('ndarray', rshape), 'y', D, P)
            y = mk_array(ctx, Yv)
            y0s = [Yv for p in range(P)]
        try:
            got = CMP[cmpop](x, y)
        except Exception as e:
            ctx.fact(False, 'comparison of shapes %s and %s raised %s: %s' % (shape, rshape, type(e).__name__, str(e)[:80]))
            return
        ctx.fact(isinstance(got, (bool, np.bool_)), 'comparison returns a truth value (%s)' % type(got).__name__)
        oshape = np.broadcast_shapes(shape, rshape)
        conj = True
        for p in range(P):
            A = np.broadcast_to(np.asarray(X[0, p], dtype=object), oshape)
            B = np.broadcast_to(np.asarray(y0s[p], dtype=object), oshape)
            if ctx.mode == 'float':
                conj = conj and bool(np.all(CMP[cmpop](np.array(A.tolist(), dtype=float), np.array(B.tolist(), dtype=float))))
            else:
                f = _conj(ctx, cmpop, A, B)
                if f is False:
                    conj = False
                    break
                if f is not True:
                    conj = f if conj is True else (conj & f)
        if ctx.mode == 'float' or conj is True or conj is False:
            ctx.fact(bool(got) == bool(conj), 'x %s y == all over directions and broadcast elements' % cmpop)
        else:
            ctx.holds(conj if bool(got) else conj.negate(), 'x %s y == all(x0 %s y0) with broadcasting' % (cmpop, cmpop))
        return
    if rkind == 'utpm':
        Yv = O.make_input(ctx, O.Arg('utpm', shape), 'y', D, P)
        y = mk_utpm(ctx, algopy, Yv)
        y0 = Yv[0]
    else:
        c = ctx.var('c')
        y = c
        y0 = c
    got = CMP[cmpop](x, y)
    ctx.fact(isinstance(got, (bool, np.bool_)), 'comparison returns a truth value (%s)' % type(got).__name__)
    if ctx.mode == 'float':
        want = bool(np.all(CMP[cmpop](np.array(X[0].tolist(), dtype=float), np.array(np.asarray(y0).tolist(), dtype=float))))
        ctx.fact(bool(got) == want, 'x %s y == all(x0 %s y0)' % (cmpop, cmpop))
        return
    f = _conj(ctx, cmpop, X[0], y0)
    if f is True or f is False:
        ctx.fact(bool(got) == f, 'constant comparison')
    else:
        ctx.holds(f if bool(got) else f.negate(), 'x %s y == all(x0 %s y0) on this path' % (cmpop, cmpop))


def h_compare_node(ctx, cmpop, D, P):
    """comparisons of a traced node (recording a program with a data-dependent branch): the same
    truth value as for the value the node holds"""
    algopy = symx.load_algopy()
    X = O.make_input(ctx, O.Arg('utpm', ()), 'x', D, P)
    c = ctx.var('c')
    for p in range(1, P):
        X[0, p] = X[0, 0]
    cg = algopy.CGraph()
    fx = algopy.Function(mk_utpm(ctx, algopy, X))
    fy = fx * 1.0 + 0.0
    got = CMP[cmpop](fy, c)
    cg.trace_off()
    ctx.fact(isinstance(got, (bool, np.bool_)), 'comparison of a traced node returns a truth value (%s)' % type(got).__name__)
    if ctx.mode == 'float':
        ctx.fact(bool(got) == bool(CMP[cmpop](X[0, 0], c)), 'node %s c == (x0 %s c)' % (cmpop, cmpop))
        return
    f = CMP[cmpop](X[0, 0], c)
    ctx.holds(f if bool(got) else f.negate(), 'node %s c == (x0 %s c) on this path' % (cmpop, cmpop))
    # a value that IS equal (same symbol): == must be true, != false
    same = CMP[cmpop](fy, X[0, 0])
    ctx.fact(bool(same) == (cmpop in ('<=', '>=', '==')), 'node %s (its own value)' % cmpop)


def h_plain_parity(ctx, what):
    """plain (non-polynomial) arguments of unusual type: the algopy-level function returns exactly
    what NumPy / SciPy returns.  Concrete data: decided on the float build."""
    algopy = symx.load_algopy()
    import scipy.special
    if ctx.mode == 'sym':
        ctx.fact(True, 'concrete plain arguments: decided on the float build')
        ctx.eq(S.const(0), S.const(0), what)
        return

    def same(a, b, label):
        a, b = np.asarray(a), np.asarray(b)
        ctx.fact(a.shape == b.shape, '%s: shape %s == %s' % (label, a.shape, b.shape))
        ctx.fact(a.dtype.kind == b.dtype.kind, '%s: dtype kind %s == %s' % (label, a.dtype.kind, b.dtype.kind))
        if a.shape == b.shape and a.dtype.kind in 'fciub' and b.dtype.kind in 'fciub':
            ctx.eq(a.astype(complex), b.astype(complex), label)
    if what == 'integer arguments of special functions':
        xi = np.array([1, 2, 3])
        same(algopy.special.polygamma(1, 2), scipy.special.polygamma(1, 2), 'polygamma(1, 2)')
        same(algopy.special.polygamma(1, xi), scipy.special.polygamma(1, xi), 'polygamma(1, int array)')
        same(algopy.special.psi(xi), scipy.special.psi(xi), 'psi(int array)')
        same(algopy.special.gammaln(xi), scipy.special.gammaln(xi), 'gammaln(int array)')
        same(algopy.special.erf(xi), scipy.special.erf(xi), 'erf(int array)')
        same(algopy.exp(xi), np.exp(xi), 'exp(int array)')
        same(algopy.sqrt(4), np.sqrt(4), 'sqrt(4)')
    elif what == 'zeros and ones with NumPy dtypes':
        for dt in ('float64', 'f4', 'i4', complex, float, int, np.float32, None):
            same(algopy.zeros(3, dtype=dt), np.zeros(3, dtype=dt), 'zeros(3, dtype=%r)' % (dt,))
            same(algopy.ones((2, 2), dtype=dt), np.ones((2, 2), dtype=dt), 'ones((2, 2), dtype=%r)' % (dt,))
    elif what == 'zeros / zeros_like with a polynomial prototype':
        proto = algopy.UTPM(np.array([[[np.inf, 1., 2.]], [[1., 1., 1.]]]))
        same(algopy.zeros(3, dtype=proto).data, np.zeros((2, 1, 3)), 'zeros(3, dtype=<polynomial whose first entry is inf>)')
        same(algopy.zeros_like(proto).data, np.zeros((2, 1, 3)), 'zeros_like(<polynomial whose first entry is inf>)')
        same(algopy.zeros((2, 2), dtype=proto).data, np.zeros((2, 1, 2, 2)), 'zeros((2,2), dtype=<polynomial>)')
        empty = algopy.UTPM(np.zeros((2, 1, 0, 3)))
        try:
            same(algopy.zeros_like(empty).data, np.zeros((2, 1, 0, 3)), 'zeros_like(<empty polynomial>)')
        except Exception as e:
            ctx.fact(False, 'zeros_like(<empty polynomial>) raised %s' % type(e).__name__)
        fin = algopy.UTPM(np.ones((2, 1, 3)))
        for shp, label in (([2, 3], 'list'), (np.array([2, 3]), 'integer array'), ((np.int64(2), 3), 'tuple with a numpy integer')):
            try:
                same(algopy.zeros(shp, dtype=fin).data, np.zeros((2, 1, 2, 3)), 'zeros(shape given as %s, dtype=<polynomial>)' % label)
                same(algopy.ones(shp, dtype=fin).data[0], np.ones((1, 2, 3)), 'ones(shape given as %s, dtype=<polynomial>)' % label)
            except Exception as e:
                ctx.fact(False, 'zeros/ones(shape given as %s, dtype=<polynomial>) raised %s' % (label, type(e).__name__))
    elif what == 'modulus of a complex polynomial':
        z0 = np.array([3 + 4j, -3 + 4j, -1 - 1j, 2 - 0.5j])
        z = algopy.UTPM(np.array([z0, [1 + 1j, 2 - 1j, 0.5j, 1.0]]).reshape((2, 1, 4)))
        for label, f in (('abs(z)', lambda: abs(z)), ('z.abs()', lambda: z.abs()), ('z.fabs()', lambda: z.fabs()), ('algopy.absolute(z)', lambda: algopy.absolute(z))):
            try:
                same(np.asarray(f().data[0, 0]).real, np.abs(z0), '%s zeroth coefficient == numpy.abs' % label)
            except Exception as e:
                ctx.fact(False, '%s raised %s' % (label, type(e).__name__))
    elif what == 'prod and sum of plain arrays':
        a = np.array([[1.5, 2.0, -0.5], [3.0, 0.25, 2.0]])
        same(algopy.prod(a[0]), np.prod(a[0]), 'prod(vector)')
        same(algopy.sum(a), np.sum(a), 'sum')
        same(algopy.sum(a, axis=1), np.sum(a, axis=1), 'sum(axis=1)')
        same(algopy.diag(a, 1), np.diag(a, 1), 'diag(a, 1)')
        same(algopy.diag(a[0], -1), np.diag(a[0], -1), 'diag(vector, -1)')
    elif what == 'linear algebra of plain arrays':
        import scipy.linalg
        a = np.array([[4.0, 1.0, 0.5], [1.0, 3.0, -0.25], [0.5, -0.25, 2.0]])
        r = np.array([[1.5, 2.0], [-0.5, 3.0], [0.25, 2.0]])
        b = np.array([1.0, -2.0, 0.5])
        for name, got, ref in (('qr_full', lambda: algopy.qr_full(r), lambda: scipy.linalg.qr(r)),
                               ('qr', lambda: algopy.qr(r), lambda: np.linalg.qr(r)),
                               ('lu', lambda: algopy.lu(a), lambda: scipy.linalg.lu(a)),
                               ('eigh', lambda: algopy.eigh(a), lambda: np.linalg.eigh(a)),
                               ('svd', lambda: algopy.svd(r), lambda: np.linalg.svd(r)),
                               ('eig', lambda: algopy.eig(a + np.triu(a, 1)), lambda: np.linalg.eig(a + np.triu(a, 1)))):
            try:
                g, e = got(), ref()
                ctx.fact(len(g) == len(e), '%s(ndarray): %d results == %d' % (name, len(g), len(e)))
                for i, (gi, ei) in enumerate(zip(g, e)):
                    same(gi, ei, '%s(ndarray)[%d]' % (name, i))
            except Exception as ex:
                ctx.fact(False, '%s(ndarray) raised %s: %s' % (name, type(ex).__name__, str(ex)[:80]))
        for name, got, ref in (('cholesky', lambda: algopy.cholesky(a), lambda: np.linalg.cholesky(a)),
                               ('inv', lambda: algopy.inv(a), lambda: np.linalg.inv(a)),
                               ('det', lambda: algopy.det(a), lambda: np.linalg.det(a)),
                               ('solve', lambda: algopy.solve(a, b), lambda: np.linalg.solve(a, b)),
                               ('solve (matrix rhs)', lambda: algopy.solve(a, r), lambda: np.linalg.solve(a, r)),
                               ('transpose', lambda: algopy.transpose(r), lambda: np.transpose(r)),
                               ('trace', lambda: algopy.trace(a), lambda: np.trace(a)),
                               ('dot', lambda: algopy.dot(a, r), lambda: np.dot(a, r)),
                               ('dot (matrix, vector)', lambda: algopy.dot(a, b), lambda: np.dot(a, b)),
                               ('outer', lambda: algopy.outer(b, r[:, 0]), lambda: np.outer(b, r[:, 0])),
                               ('expm', lambda: algopy.expm(a / 4), lambda: scipy.linalg.expm(a / 4)),
                               ('logdet', lambda: algopy.logdet(a), lambda: np.linalg.slogdet(a)[1]),
                               ('tril', lambda: algopy.tril(a), lambda: np.tril(a)),
                               ('triu', lambda: algopy.triu(a, 1), lambda: np.triu(a, 1)),
                               ('reshape', lambda: algopy.reshape(r, (2, 3)), lambda: np.reshape(r, (2, 3))),
                               ('tile', lambda: algopy.tile(b, 2), lambda: np.tile(b, 2)),
                               ('real', lambda: algopy.real(a + 1j * a), lambda: np.real(a + 1j * a)),
                               ('imag', lambda: algopy.imag(a + 2j * a), lambda: np.imag(a + 2j * a)),
                               ('conjugate', lambda: algopy.conjugate(a + 2j * a), lambda: np.conjugate(a + 2j * a)),
                               ('fft', lambda: algopy.fft.fft(b), lambda: np.fft.fft(b)),
                               ('fft(axis=0)', lambda: algopy.fft.fft(r, axis=0), lambda: np.fft.fft(r, axis=0)),
                               ('fft(n=4, axis=0)', lambda: algopy.fft.fft(r, n=4, axis=0), lambda: np.fft.fft(r, n=4, axis=0)),
                               ('ifft(axis=0)', lambda: algopy.fft.ifft(r, axis=0), lambda: np.fft.ifft(r, axis=0)),
                               ('ifft(n=2, axis=0)', lambda: algopy.fft.ifft(r, n=2, axis=0), lambda: np.fft.ifft(r, n=2, axis=0)),
                               ('ifft(n=4)', lambda: algopy.fft.ifft(r, n=4), lambda: np.fft.ifft(r, n=4)),
                               ('ifft', lambda: algopy.fft.ifft(b), lambda: np.fft.ifft(b)),
                               ('symvec', lambda: algopy.symvec(a), lambda: np.array([4.0, 1.0, 0.5, 3.0, -0.25, 2.0])),
                               ('vecsym', lambda: algopy.vecsym(np.array([4.0, 1.0, 0.5, 3.0, -0.25, 2.0])), lambda: a)):
            try:
                same(got(), ref(), '%s(ndarray)' % name)
            except Exception as ex:
                ctx.fact(False, '%s(ndarray) raised %s: %s' % (name, type(ex).__name__, str(ex)[:80]))
    else:
        raise KeyError(what)


def h_branch(ctx, cmpop, D, P):
    """a data-dependent branch takes the same path with ndarray, UTPM and Function operands"""
    algopy = symx.load_algopy()
    X = O.make_input(ctx, O.Arg('utpm', (2,)), 'x', D, P)
    # every direction carries the same base point (a branch on a single point)
    for p in range(1, P):
        X[0, p] = X[0, 0]
    x = mk_utpm(ctx, algopy, X)
    c = ctx.var('c')
    nd = mk_array(ctx, X[0, 0])
    b_nd = bool(np.all(CMP[cmpop](nd, c)))
    b_ut = bool(CMP[cmpop](x, c))
    cg = algopy.CGraph()
    fx = algopy.Function(mk_utpm(ctx, algopy, X))
    if cmpop == '==':
        b_fn = b_ut
    else:
        b_fn = bool(CMP[cmpop](fx, c))
    cg.trace_off()
    ctx.fact(b_nd == b_ut, 'branch on (x %s c): ndarray %s vs UTPM %s' % (cmpop, b_nd, b_ut))
    ctx.fact(b_nd == b_fn, 'branch on (x %s c): ndarray %s vs Function %s' % (cmpop, b_nd, b_fn))


def h_max(ctx, D, P, n):
    algopy = symx.load_algopy()
    X = O.make_input(ctx, O.Arg('utpm', (n,)), 'x', D, P)
    for p in range(P):
        for i in range(n):
            for j in range(i):
                ctx.assume(X[0, p, i] != X[0, p, j])
    x = mk_utpm(ctx, algopy, X)
    m = algopy.UTPM.max(x)
    am = algopy.UTPM.argmax(x)
    M = plain(m.data)
    for p in range(P):
        # independent argmax by pairwise comparison of base points
        k = 0
        for i in range(1, n):
            if bool(X[0, p, i] > X[0, p, k]):
                k = i
        ctx.fact(int(am[p]) == k, 'argmax dir %d: %s == %d' % (p, am[p], k))
        for d in range(D):
            ctx.eq(M[d, p], X[d, p, k], 'max[%d,%d] == x[argmax]' % (d, p))


def h_minmax_traced(ctx, fname, D, P):
    """algopy.minimum / maximum of traced nodes: the value seen through the nodes equals the
    element-wise result on the polynomials (and NumPy's on the zeroth coefficients)"""
    algopy = symx.load_algopy()
    X = O.make_input(ctx, O.Arg('utpm', (2,)), 'x', D, P)
    Y = O.make_input(ctx, O.Arg('utpm', (2,)), 'y', D, P)
    for p in range(P):
        for i in range(2):
            ctx.assume(X[0, p, i] != Y[0, p, i])
    f = getattr(algopy, fname)
    direct = plain(f(mk_utpm(ctx, algopy, X), mk_utpm(ctx, algopy, Y)).data)
    cg = algopy.CGraph()
    fx, fy = algopy.Function(mk_utpm(ctx, algopy, X)), algopy.Function(mk_utpm(ctx, algopy, Y))
    fz = f(fx, fy)
    cg.trace_off()
    ctx.fact(isinstance(fz, algopy.Function) and isinstance(fz.x, algopy.UTPM), '%s of traced nodes is a traced polynomial' % fname)
    if isinstance(fz, algopy.Function) and isinstance(fz.x, algopy.UTPM):
        ctx.eq(plain(fz.x.data), direct, '%s(traced x, traced y) == %s(x, y)' % (fname, fname))
    for p in range(P):
        for i in range(2):
            big = bool(X[0, p, i] > Y[0, p, i])
            ref = (X if big else Y) if fname == 'maximum' else (Y if big else X)
            ctx.eq(direct[0, p, i], ref[0, p, i], '%s zeroth coefficient == numpy [%d,%d]' % (fname, p, i))


def h_tie(ctx, fname, D, P, same_object=False):
    """maximum / minimum where some zeroth coefficients tie exactly (evaluation ON a bound,
    maximum(x, x)): the zeroth coefficient is NumPy's maximum/minimum of the zeroth coefficients,
    and where the two operands are the same polynomial the result is that polynomial"""
    algopy = symx.load_algopy()
    n = 3
    X = O.make_input(ctx, O.Arg('utpm', (n,)), 'x', D, P)
    Y = O.make_input(ctx, O.Arg('utpm', (n,)), 'y', D, P)
    for p in range(P):
        Y[0, p, 0] = X[0, p, 0]                 # tie in the value only
        Y[:, p, 1] = X[:, p, 1]                 # identical polynomial
        ctx.assume(X[0, p, 2] != Y[0, p, 2])    # regular entry
    x = mk_utpm(ctx, algopy, X)
    y = x if same_object else mk_utpm(ctx, algopy, Y)
    if same_object:
        Y = X
    f = getattr(algopy, fname)
    z = plain(f(x, y).data)
    for p in range(P):
        for i in range(n):
            x0, y0 = X[0, p, i], Y[0, p, i]
            if i == 2 and not same_object:
                big = bool(x0 > y0)
                ref0 = (x0 if big else y0) if fname == 'maximum' else (y0 if big else x0)
            else:
                ref0 = x0
            ctx.eq(z[0, p, i], ref0, '%s zeroth coefficient [%d,%d]' % (fname, p, i))
        k = 1
        for d in range(D):
            ctx.eq(z[d, p, k], X[d, p, k], '%s(u, u) == u, coefficient %d dir %d' % (fname, d, p))
        if same_object:
            for i in range(n):
                for d in range(D):
                    ctx.eq(z[d, p, i], X[d, p, i], '%s(x, x) == x [%d,%d,%d]' % (fname, d, p, i))


DISPATCH = ['exp', 'expm1', 'log', 'log1p', 'sqrt', 'sin', 'cos', 'tan', 'arcsin', 'arccos', 'arctan', 'sinh', 'cosh',
            'tanh', 'square', 'negative', 'reciprocal', 'absolute', 'sign']


def h_dispatch(ctx, fname):
    """plain arrays / scalars: algopy.<f> returns what numpy/scipy.<f> returns"""
    algopy = symx.load_algopy()
    dom = {'log': 'pos', 'sqrt': 'pos', 'log1p': 'gtm1', 'arcsin': 'abs1', 'arccos': 'abs1', 'reciprocal': 'nonzero',
           'absolute': 'nonzero', 'sign': 'nonzero', 'logit': 'unit', 'gammaln': 'pos', 'psi': 'pos'}.get(fname, 'any')
    A = O.make_input(ctx, O.Arg('ndarray', (2, 2), dom), 'a', 1, 1)
    a = mk_array(ctx, A)
    s = A[0, 0]
    import scipy.special
    if fname in DISPATCH:
        ctx.eq(plain(getattr(algopy, fname)(a)), plain(getattr(np, fname)(mk_array(ctx, A))), '%s(array)' % fname)
        ctx.eq(getattr(algopy, fname)(s), getattr(np, fname)(s), '%s(scalar)' % fname)
    elif fname in ('erf', 'erfi', 'dawsn', 'logit', 'expit', 'gammaln', 'psi'):
        ctx.eq(plain(getattr(algopy.special, fname)(a)), plain(getattr(scipy.special, fname)(mk_array(ctx, A))), '%s(array)' % fname)
    elif fname == 'dot':
        ctx.eq(plain(algopy.dot(a, a)), plain(np.dot(mk_array(ctx, A), mk_array(ctx, A))), 'dot')
        ctx.eq(plain(algopy.outer(a[0], a[1])), plain(np.outer(mk_array(ctx, A)[0], mk_array(ctx, A)[1])), 'outer')
    elif fname == 'sum':
        ctx.eq(algopy.sum(a), np.sum(mk_array(ctx, A)), 'sum')
        ctx.eq(plain(algopy.sum(a, axis=0)), plain(np.sum(mk_array(ctx, A), axis=0)), 'sum axis 0')
        ctx.eq(algopy.prod(a[0]), np.prod(mk_array(ctx, A)[0]), 'prod')
    elif fname == 'shape':
        ctx.eq(plain(algopy.trace(a)), plain(np.trace(mk_array(ctx, A))), 'trace')
        ctx.eq(plain(algopy.diag(a)), plain(np.diag(mk_array(ctx, A))) if ctx.mode == 'float' else np.array([A[0, 0], A[1, 1]], dtype=object), 'diag')
        ctx.eq(plain(algopy.reshape(a, (4,))), plain(np.reshape(mk_array(ctx, A), (4,))), 'reshape')
        ctx.eq(plain(algopy.transpose(a)), plain(np.transpose(mk_array(ctx, A))), 'transpose')
        ctx.eq(plain(algopy.tile(a, 2)), plain(np.tile(mk_array(ctx, A), 2)), 'tile')
        z = algopy.zeros((2, 3), dtype=a)
        ctx.fact(isinstance(z, np.ndarray) and z.shape == (2, 3), 'zeros(dtype=ndarray) is an ndarray')
        ctx.eq(plain(algopy.zeros_like(a)), np.zeros((2, 2)), 'zeros_like')
        ctx.eq(plain(algopy.ones_like(a)), np.ones((2, 2)), 'ones_like')
    else:
        raise KeyError(fname)


def units(tier, seed):
    out = []
    opts = {'property': PROP, 'path_budget': 300}

    def add(name, func, o=None, **kw):
        oo = dict(opts)
        oo.update(o or {})
        out.append(Unit('C10/' + name, 'symx.props.c10', func, kw, oo))

    for (D, P) in ([(2, 2)] if tier == 'quick' else [(4, 3), (7, 1), (1, 4)]):
      for op in O.catalogue():
        if 'c14only' in op.tags:
            continue
        if op.npfn is None and not (op.name.startswith('inv') or op.name.startswith('solve')):
            continue
        add('zeroth/%s/D%d,P%d' % (op.name, D, P), 'h_zeroth', o=({'float_rel': 1e-12, 'exact_eval': True} if 'tight' in op.tags else None), opname=op.name, D=D, P=P)
        if (D, P) not in ((2, 2), (4, 3)):
            continue
        if len(op.args) == 1 and op.group in ('elementwise', 'special') and op.args[0].dom in ('any', 'gtm1', 'abs1', 'unit', 'pos') and not op.args[0].cplx:
            add('zeroth/%s/tiny argument/D2,P1' % op.name, 'h_zeroth', o={'float_rel': 1e-11}, opname=op.name, D=2, P=1, scale='1/10000000000000')
    for cmpop in CMP:
        for rkind in ('utpm', 'scalar'):
            for shape in ((), (2,), (2, 2)) if tier != 'quick' else ((), (2,)):
                add('compare/x %s %s/%s' % (cmpop, rkind, shape), 'h_compare', cmpop=cmpop, rkind=rkind, shape=shape, D=2, P=1 if shape else 2)
        add('branch/x %s c' % cmpop, 'h_branch', cmpop=cmpop, D=2, P=2)
        add('compare/traced node %s c' % cmpop, 'h_compare_node', cmpop=cmpop, D=2, P=2)
        for (ls, rk, rs) in [((2,), 'utpm', ()), ((), 'utpm', (3,)), ((), 'ndarray', (3,)), ((1,), 'ndarray', (2, 1))]:
            add('compare/x%s %s %s%s, broadcasting, P=2' % (ls, cmpop, rk, rs), 'h_compare', cmpop=cmpop, rkind=rk, shape=ls, D=2, P=2, rshape=rs)
    add('max/D2,P2,n3', 'h_max', D=2, P=2, n=3)
    for what in ('integer arguments of special functions', 'zeros and ones with NumPy dtypes', 'zeros / zeros_like with a polynomial prototype', 'modulus of a complex polynomial', 'prod and sum of plain arrays', 'linear algebra of plain arrays'):
        add('plain arguments/%s' % what, 'h_plain_parity', what=what)
    for fn in ('maximum', 'minimum'):
        add('%s of traced nodes/D2,P2' % fn, 'h_minmax_traced', fname=fn, D=2, P=2)
        add('%s with tied zeroth coefficients/D3,P2' % fn, 'h_tie', fname=fn, D=3, P=2)
        add('%s(x, x)/D3,P2' % fn, 'h_tie', fname=fn, D=3, P=2, same_object=True)
    for f in DISPATCH + ['erf', 'erfi', 'dawsn', 'logit', 'expit', 'gammaln', 'psi', 'dot', 'sum', 'shape']:
        add('dispatch/%s' % f, 'h_dispatch', fname=f)
    return out
