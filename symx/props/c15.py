"""C15  Exact-interpolation coefficients reconstruct mixed partial derivatives.

The real generate_multi_indices / generate_Gamma_and_rays (with their helpers
increment, multi_index_binomial, gamma) are executed for each (N, d) in the
bound (concrete integers in, tables out).  Solver obligations per (N, d):
 (i)  completeness: "alpha in N^N, sum(alpha) = d, alpha != row_k for all k" is
      unsat over symbolic integer alpha; rows pairwise distinct and of degree d;
 (ii) reconstruction for EVERY polynomial: with symbolic coefficients c_beta
      (|beta| = d, plus degrees d-1 and d+1 to show that nothing leaks) in the
      box [-1,1], the d-th Taylor coefficient of p along ray j is the linear
      form sum_beta c_beta ray_j^beta; the solver shows
      |sum_j Gamma[i,j] coeff_j(c) - c_i| <= tol for all c (linear real arithmetic),
      Gamma taken at its exact binary values."""
import itertools
from fractions import Fraction

import numpy as np

import symx
from ..runner import Unit

PROP = 'C15'
EXPLANATION = ('C15: tables from the real code; completeness decided over symbolic integer multi-indices (QF_LIA), '
               'reconstruction decided for all polynomial coefficient vectors (QF_LRA) with tolerance 1e-9.')
ASSUMPTIONS = ['Gamma is a float table: identities are decided up to 1e-9 (measured exact residual <= 4e-14 at d=5)']
TOL = Fraction(1, 10**9)


def _mi(N, d):
    """all multi-indices of degree d (independent enumeration)"""
    return [a for a in itertools.product(range(d + 1), repeat=N) if sum(a) == d]


def _mpow(r, beta):
    p = Fraction(1)
    for x, b in zip(r, beta):
        p *= Fraction(x) ** b
    return p


def h_tables(ctx, N, d, tol=None):
    TOL = Fraction(tol) if tol is not None else globals()['TOL']
    algopy = symx.load_algopy()
    import algopy.exact_interpolation as ei
    J = ei.generate_multi_indices(N, d)
    Gamma, rays = ei.generate_Gamma_and_rays(N, d)
    rows = [tuple(int(v) for v in r) for r in J]
    nJ = len(rows)
    ctx.fact(Gamma.shape == (nJ, nJ) and rays.shape == (nJ, N), 'table shapes')
    if ctx.mode == 'float':
        want = sorted(_mi(N, d))
        ctx.fact(sorted(rows) == want, 'multi-index list == all multi-indices of degree %d (brute force)' % d)
        for i, a in enumerate(rows):
            for k, b in enumerate(rows):
                s = sum(Fraction(float(Gamma[i, j])) * _mpow(rays[j], b) for j in range(nJ))
                ctx.fact(abs(s - (1 if i == k else 0)) <= TOL, 'delta identity i=%s alpha=%s residual %.2e' % (a, b, float(s - (1 if i == k else 0))))
        return
    # (i) completeness over symbolic integers
    decl = ''.join('(declare-const a%d Int)' % n for n in range(N))
    cons = ['(>= a%d 0)' % n for n in range(N)] + ['(= (+ %s 0) %d)' % (' '.join('a%d' % n for n in range(N)), d)]
    for r in rows:
        cons.append('(not (and %s))' % ' '.join('(= a%d %d)' % (n, v) for n, v in enumerate(r)))
    script = decl + ''.join('(assert %s)' % c for c in cons)

    def confirm(model):
        a = tuple(int(model['a%d' % n]) for n in range(N))
        return sum(a) == d and min(a) >= 0 and a not in rows
    ctx.smt_obligation('every multi-index of degree %d occurs (N=%d)' % (d, N), script, confirm)
    ctx.fact(len(set(rows)) == nJ, 'rows pairwise distinct')
    ctx.fact(all(sum(r) == d and min(r) >= 0 for r in rows), 'rows have degree d')
    ctx.fact(nJ == len(_mi(N, d)), 'row count == binomial(N+d-1, d)')
    # (ii) reconstruction for every polynomial, decided in LRA
    G = [[Fraction(float(Gamma[i, j])) for j in range(nJ)] for i in range(nJ)]
    R = [[Fraction(float(v)) for v in rays[j]] for j in range(nJ)]
    betas = _mi(N, d)
    names = {b: 'c_' + '_'.join(map(str, b)) for b in betas}
    decl = ''.join('(declare-const %s Real)' % names[b] for b in betas)
    box = ''.join('(assert (and (<= (- 1) %s) (<= %s 1)))' % (names[b], names[b]) for b in betas)

    def q(fr):
        return ('(/ %d %d)' % (fr.numerator, fr.denominator)) if fr >= 0 else ('(- (/ %d %d))' % (-fr.numerator, fr.denominator))
    bad = []
    for i, a in enumerate(rows):
        # residual_i(c) = sum_beta c_beta (sum_j G_ij r_j^beta) - c_a
        terms = []
        for b in betas:
            m = sum(G[i][j] * _mpow(R[j], b) for j in range(nJ)) - (1 if b == a else 0)
            if m != 0:
                terms.append('(* %s %s)' % (q(m), names[b]))
        if not terms:
            continue
        e = '(+ %s 0)' % ' '.join(terms)
        bad.append('(or (> %s %s) (< %s (- %s)))' % (e, q(TOL), e, q(TOL)))
    if bad:
        script = decl + box + '(assert (or %s false))' % ' '.join(bad)
        ctx.smt_obligation('Gamma reconstructs the degree-%d part of every polynomial (N=%d)' % (d, N), script, lambda m: True)
    # rays are the multi-indices themselves (seed matrix = identity)
    ctx.fact(all(tuple(int(round(v)) for v in rays[j]) == rows[j] for j in range(nJ)), 'rays == multi-indices')


def h_int_kinds(ctx, N, d):
    """N and d given as NumPy integers of any type (uint64 arithmetic promotes to float) give the
    tables of the python ints; init_tensor(d, x) likewise (concrete: decided by the run itself)"""
    algopy = symx.load_algopy()
    import algopy.exact_interpolation as ei
    J0 = ei.generate_multi_indices(N, d)
    G0, R0 = ei.generate_Gamma_and_rays(N, d)
    T0 = algopy.UTPM.init_tensor(d, np.arange(1, N + 1, dtype=float)).data
    for t in (np.uint64, np.int64, np.uint8, np.int32):
        try:
            J = ei.generate_multi_indices(t(N), t(d))
            G, R = ei.generate_Gamma_and_rays(t(N), t(d))
            T = algopy.UTPM.init_tensor(t(d), np.arange(1, N + 1, dtype=float)).data
        except Exception as e:
            ctx.fact(False, 'N, d given as %s raised %s: %s' % (t.__name__, type(e).__name__, str(e)[:70]))
            continue
        ctx.fact(np.array_equal(np.asarray(J), np.asarray(J0)) and np.array_equal(np.asarray(G, dtype=float), np.asarray(G0, dtype=float))
                 and np.array_equal(np.asarray(R, dtype=float), np.asarray(R0, dtype=float)) and np.array_equal(np.asarray(T, dtype=float), np.asarray(T0, dtype=float)),
                 'tables and seed for N, d given as %s equal those for python ints' % t.__name__)
    ctx.eq(S_zero(ctx), S_zero(ctx), 'integer kinds of N and d')


def S_zero(ctx):
    from .. import sym as S
    return S.const(0) if ctx.mode == 'sym' else 0.0


def h_fresh_and_kinds(ctx, N, d):
    """(a) the arrays a call returns are the caller's: changing them in place does not change what
    later calls return; (b) the seed matrix S given with an integer type (identity, permutation,
    nested list of ints) gives the tables of the same matrix in floating point; (c) the flag
    as_full_matrix of extract_tensor given as numpy.False_ / 0 / numpy.True_ / 1 means False / True.
    Concrete tables: decided by the run itself."""
    algopy = symx.load_algopy()
    import algopy.exact_interpolation as ei
    J0 = np.array(ei.generate_multi_indices(N, d)).copy()
    G0, R0 = [np.array(a, dtype=float).copy() for a in ei.generate_Gamma_and_rays(N, d)]
    J1 = ei.generate_multi_indices(N, d)
    G1, R1 = ei.generate_Gamma_and_rays(N, d)
    J1 *= 2
    G1 += 1.0
    R1 *= 3.0
    J2 = ei.generate_multi_indices(N, d)
    G2, R2 = ei.generate_Gamma_and_rays(N, d)
    ctx.fact(np.array_equal(np.asarray(J2), J0), 'multi-indices unchanged after a caller modified an earlier result in place')
    ctx.fact(np.array_equal(np.asarray(G2, dtype=float), G0) and np.array_equal(np.asarray(R2, dtype=float), R0), 'Gamma and rays unchanged after a caller modified earlier results in place')
    ctx.fact(not np.shares_memory(np.asarray(J2), np.asarray(J1)), 'two calls do not return the same array object')
    # (b) integer-typed seed matrices
    perm = np.eye(N)[::-1].copy()
    for label, Si, Sf in (('integer identity', np.eye(N, dtype=int), np.eye(N)), ('integer permutation', perm.astype(int), perm),
                          ('nested list of ints', [[int(v) for v in row] for row in perm], perm)):
        try:
            Gi, Ri = ei.generate_Gamma_and_rays(N, d, S=Si)
            Gf, Rf = ei.generate_Gamma_and_rays(N, d, S=Sf)
        except Exception as e:
            ctx.fact(False, 'S given as %s raised %s' % (label, type(e).__name__))
            continue
        ctx.fact(np.allclose(np.asarray(Gi, dtype=float), np.asarray(Gf, dtype=float), rtol=1e-12, atol=0) and np.allclose(np.asarray(Ri, dtype=float), np.asarray(Rf, dtype=float)),
                 'Gamma and rays for S given as %s equal those for the same matrix in floating point' % label)
    # (c) flag kinds of the consumer
    try:
        x = algopy.UTPM.init_tensor(d, np.arange(1, N + 1, dtype=float))
        y = algopy.sum(x * x * x) + x[0] * x[N - 1]
        Tc = np.asarray(algopy.UTPM.extract_tensor(N, y, as_full_matrix=False), dtype=float)
        Tf = np.asarray(algopy.UTPM.extract_tensor(N, y, as_full_matrix=True), dtype=float)
        for flag, ref, label in ((np.False_, Tc, 'numpy.False_'), (0, Tc, '0'), (np.True_, Tf, 'numpy.True_'), (1, Tf, '1')):
            got = np.asarray(algopy.UTPM.extract_tensor(N, y, as_full_matrix=flag), dtype=float)
            ctx.fact(got.shape == ref.shape and np.allclose(got, ref), 'extract_tensor(as_full_matrix=%s) == extract_tensor(as_full_matrix=%s)' % (label, bool(flag)))
    except Exception as e:
        ctx.fact(False, 'init_tensor / extract_tensor after the calls above raised %s: %s' % (type(e).__name__, str(e)[:80]))
    ctx.eq(S_zero(ctx), S_zero(ctx), 'freshness, seed-matrix kinds, flag kinds')


def h_sequence(ctx, pairs):
    """tables requested one after the other in the same process (no state may leak between
    calls): in particular (N,d) pairs with the same number of multi-indices"""
    for k, (N, d) in enumerate(list(pairs) + list(pairs)[:1]):
        h_tables(ctx, N, d)


def h_increment(ctx, N, d):
    """increment(i, k) enumerates exactly the multi-indices 0 <= k <= i in
    lexicographic order (used by gamma); multi_index_binomial is the product of
    binomials"""
    algopy = symx.load_algopy()
    import algopy.exact_interpolation as ei
    import math
    for i in _mi(N, d):
        k = np.zeros(N, dtype=int)
        seen = [tuple(k)]
        steps = 1
        for a in i:
            steps *= (a + 1)
        for _ in range(steps - 1):
            ei.increment(np.array(i), k)
            seen.append(tuple(int(v) for v in k))
        want = sorted(itertools.product(*[range(a + 1) for a in i]))
        ctx.fact(seen == want, 'increment enumerates the box below %s in lexicographic order' % (i,))
        ctx.fact(seen[-1] == tuple(i), 'increment ends at i')
        for kk in want:
            b = ei.multi_index_binomial(np.array(i), np.array(kk))
            ref = 1
            for a, c in zip(i, kk):
                ref *= math.comb(a, c)
            ctx.fact(abs(b - ref) <= 1e-9 * max(1, ref), 'multi_index_binomial(%s,%s)' % (i, kk))


def units(tier, seed):
    out = []
    cap = 21 if tier == 'quick' else 56
    import math
    for N in range(1, 9):
        for d in range(1, 10):
            if math.comb(N + d - 1, d) <= cap:
                out.append(Unit('C15/tables N=%d d=%d' % (N, d), 'symx.props.c15', 'h_tables', {'N': N, 'd': d},
                                {'property': PROP, 'validate': False}))
    # high degrees (integer intermediates of the coefficient formula leave the int64 range at d = 16); the float
    # table itself is only accurate to ~1e-8 (N=1) / ~1e-6 (N=2) there, hence the wider tolerance
    for (N, d) in ([(1, 12), (1, 16), (1, 17), (2, 16)] if tier == 'quick' else [(1, 12), (1, 15), (1, 16), (1, 17), (1, 18), (2, 12), (2, 16), (2, 17)]):
        out.append(Unit('C15/tables N=%d d=%d (tolerance 1e-4)' % (N, d), 'symx.props.c15', 'h_tables', {'N': N, 'd': d, 'tol': '1/10000'},
                        {'property': PROP, 'validate': False}))
    for pairs in ([[(2, 2), (3, 1)], [(3, 2), (2, 5)], [(2, 3), (4, 1)], [(1, 2), (1, 1), (1, 3)]] if tier == 'quick' else
                  [[(2, 2), (3, 1)], [(3, 2), (2, 5), (6, 1)], [(2, 3), (4, 1)], [(3, 3), (4, 2)], [(1, 2), (1, 1), (1, 3)]]):
        out.append(Unit('C15/sequence %s' % pairs, 'symx.props.c15', 'h_sequence', {'pairs': pairs}, {'property': PROP, 'validate': False}))
    # the consumers of the tables ("the product of Gamma with the d-th Taylor coefficients along the rays is the
    # vector of partial derivatives"): init_tensor / extract_tensor end to end (harnesses of C09)
    for (N, d) in ([(2, 3), (3, 2)] if tier == 'quick' else [(2, 3), (3, 2), (2, 4), (3, 3)]):
        out.append(Unit('C15/consumer: extract_tensor(f(init_tensor))/N%d,d%d' % (N, d), 'symx.props.c09', 'h_tensor', {'N': N, 'd': d, 'm': d + 1},
                        {'property': PROP, 'validate': False}))
    for drv in ('tensor', 'tensor(list)', 'tensor(int32)'):
        out.append(Unit('C15/consumer: %s at an integer-typed point' % drv, 'symx.props.c09', 'h_intpoint', {'driver': drv, 'N': 2},
                        {'property': PROP, 'validate': False}))
    for sc in ('3/100000000000000', '1/100000000000000000000'):
        out.append(Unit('C15/consumer: program scaled by %s/N2,d3' % sc, 'symx.props.c09', 'h_tensor', {'N': 2, 'd': 3, 'm': 4, 'scale': sc},
                        {'property': PROP, 'float_tol': 2e-4}))
    for (N_, d_) in ((2, 2), (1, 3), (3, 2)):
        out.append(Unit('C15/returned arrays are fresh; integer seed matrices; flag kinds/N=%d d=%d' % (N_, d_), 'symx.props.c15', 'h_fresh_and_kinds', {'N': N_, 'd': d_}, {'property': PROP, 'validate': False}))
    out.append(Unit('C15/N and d given as NumPy integers (uint64, int64, uint8, int32)', 'symx.props.c15', 'h_int_kinds', {'N': 2, 'd': 3}, {'property': PROP, 'validate': False}))
    for N, d in ([(2, 3), (3, 2)] if tier == 'quick' else [(2, 3), (3, 2), (3, 3), (4, 2), (2, 5)]):
        out.append(Unit('C15/increment+binomial N=%d d=%d' % (N, d), 'symx.props.c15', 'h_increment', {'N': N, 'd': d},
                        {'property': PROP, 'validate': False}))
    return out
