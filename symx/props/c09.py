"""C09  Forward-mode derivative drivers are exact.

Programs are generic polynomials f_k(x) = sum_{|alpha| <= m} c_{k,alpha} x^alpha whose
COEFFICIENTS c are symbolic as well as the point x and the direction v (plus a
few smooth programs); they are evaluated with the real UTPM arithmetic on the
seeds produced by init_jacobian / init_jac_vec / init_hessian / init_hess_vec /
init_tensor and read back with the matching extract_*.  Oracle: symbolic
partial derivatives (diff.py) of the direct evaluation on plain symbols.
extract_tensor (float interpolation table Gamma): the point is a concrete
integer vector, the residual is linear in c and is bounded by 1e-9 for all c in
the box [-1,1] (decided by the solver)."""
import itertools
import math
from fractions import Fraction

import numpy as np

import symx
from .. import sym as S
from .. import diff, npx
from ..runner import Unit
from .common import plain

PROP = 'C09'
EXPLANATION = 'C09: polynomial programs with symbolic coefficients, symbolic point and direction; N<=5, degree<=3(4).'
ASSUMPTIONS = ['extract_tensor: Gamma is a float table; identity decided with tolerance 1e-9 for coefficient vectors in [-1,1] at concrete integer points']


def monomials(N, m):
    out = []
    for deg in range(m + 1):
        for a in itertools.product(range(deg + 1), repeat=N):
            if sum(a) == deg:
                out.append(a)
    return out


def poly_eval(c, mons, x):
    """sum_alpha c_alpha x^alpha using only * and + of the number type of x[i]"""
    tot = None
    for ca, a in zip(c, mons):
        t = None
        for i, e in enumerate(a):
            for _ in range(e):
                t = x[i] if t is None else t * x[i]
        term = (t * ca) if t is not None else None
        if term is None:
            # constant term: keep the type of x
            term = x[0] * 0 + ca
        tot = term if tot is None else tot + term
    return tot


def coeff_vars(ctx, M, N, m, box=False):
    mons = monomials(N, m)
    C = []
    for k in range(M):
        row = []
        for a in mons:
            v = ctx.var('c%d_%s' % (k, ''.join(map(str, a))))
            if box:
                ctx.assume(v >= -1)
                ctx.assume(v <= 1)
            row.append(v)
        C.append(row)
    return mons, C


def program(algopy, C, mons, kind):
    M = len(C)

    def f(x):
        if kind == 'scalar':
            return poly_eval(C[0], mons, x)
        y = algopy.zeros(M, dtype=x)
        for k in range(M):
            y[k] = poly_eval(C[k], mons, x)
        return y
    return f


def smooth_program(algopy, name):
    if name == 'exp-sin':
        return lambda x: algopy.exp(x[0] * x[1]) + algopy.sin(x[1]) * x[0] + x[0] / (1. + x[1] * x[1])
    Cm = np.array([[1., 2., 3.], [4., 5., 6.], [7., 8., 10.]])
    Wm = np.array([[2., -1., 3.], [1., 4., -2.]])
    cv = np.array([3., -2.])
    if name == 'constant operands':
        # constants of higher rank than the polynomial operand, constant (x) polynomial outer product
        return lambda x: (algopy.sum(x / Cm) + algopy.sum(algopy.outer(cv, x) * Wm) + algopy.sum(Cm * x)
                          + algopy.sum(algopy.dot(Wm, x) * cv) + algopy.sum((Cm - x) * (x + Cm)))
    if name == 'in-place':
        def g(x):
            q = x * 1.0
            q /= (1. + x * x)
            q *= x
            q += x[::-1]
            q -= 2.0 * x
            q /= 4.0
            return algopy.sum(q * q)
        return g
    if name == 'float and negative powers':
        # integer-valued float exponents and negative integer exponents; the point may have
        # negative entries (the harness only excludes zeros)
        return lambda x: x[0] ** 2.0 * x[1] + x[1] ** 3.0 + x[0] * x[1] ** -3 + (x[0] * x[1]) ** -2.0
    if name == 'rosenbrock, float exponents':
        # integer-valued python / numpy float exponents at ANY point (the textbook test points have zero entries)
        return lambda x: algopy.sum(100. * (x[1:] - x[:-1] ** 2.0) ** 2.0 + (1. - x[:-1]) ** np.float64(2.0)) + x[0] ** 3.0 * x[1]
    if name == 'matrix-valued':
        return lambda x: algopy.outer(x, x * x) + algopy.outer(cv[:1] * np.ones(3), x) + Cm * x
    raise KeyError(name)


def direct_terms(ctx, f, xs):
    """flat list of the program's outputs on plain symbols / floats"""
    if ctx.mode == 'sym':
        y = f(npx.sarr(np.array(xs, dtype=object), float))
    else:
        y = f(np.array(xs, dtype=float))
    ya = np.asarray(plain(np.asarray(y, dtype=object)), dtype=object).ravel()
    return [S.lift(e) if ctx.mode == 'sym' else float(e) for e in ya]


def partials(ctx, f, xs, order):
    """symbolic partial derivatives: dict multi-index tuple (i1<=..<=ik) -> list over outputs"""
    assert ctx.mode == 'sym'
    ys = direct_terms(ctx, f, xs)
    N = len(xs)
    cur = {(): ys}
    for _ in range(order):
        nxt = {}
        for idx, terms in cur.items():
            for n in range(idx[-1] if idx else 0, N):
                nxt[idx + (n,)] = diff.d(terms, {xs[n].a[0]: S.const(1)})
        cur = nxt
    return cur


def fd_partials(ctx, f, xs, order):
    """float mode: nested central differences"""
    N = len(xs)
    x0 = np.array(xs, dtype=float)
    h = {1: 1e-6, 2: 2e-4, 3: 2e-3, 4: 1e-2}[order]

    def g(x):
        return np.array(direct_terms(ctx, f, list(x)))

    def D(fun, n):
        def df(x):
            e = np.zeros(N)
            e[n] = h
            return (fun(x + e) - fun(x - e)) / (2 * h)
        return df
    out = {}
    for idx in itertools.combinations_with_replacement(range(N), order):
        fun = g
        for n in idx:
            fun = D(fun, n)
        out[idx] = list(fun(x0))
    return out


def get_partials(ctx, f, xs, order):
    return partials(ctx, f, xs, order) if ctx.mode == 'sym' else fd_partials(ctx, f, xs, order)


def point(ctx, N):
    xs = [ctx.var('x%d' % i) for i in range(N)]
    if ctx.mode == 'sym':
        return xs, npx.sarr(np.array(xs, dtype=object), float)
    return xs, np.array(xs, dtype=float)


def vec(ctx, name, N):
    vs = [ctx.var('%s%d' % (name, i)) for i in range(N)]
    if ctx.mode == 'sym':
        return vs, npx.sarr(np.array(vs, dtype=object), float)
    return vs, np.array(vs, dtype=float)


def h_driver(ctx, driver, N, M, m, kind='vector', smooth=None):
    algopy = symx.load_algopy()
    UTPM = algopy.UTPM
    if smooth:
        f = smooth_program(algopy, smooth)
        M = 1
        kind = 'scalar'
    else:
        mons, C = coeff_vars(ctx, M if kind != 'scalar' else 1, N, m)
        f = program(algopy, C, mons, kind)
    xs, x = point(ctx, N)
    if smooth == 'float and negative powers':
        for v in xs:
            ctx.assume(v != 0)
    flat = lambda a: np.asarray(plain(np.asarray(a, dtype=object)), dtype=object)
    # reading a result must not change it, and can be repeated
    seedmap = {'jacobian': lambda: UTPM.init_jacobian(x), 'hessian': lambda: UTPM.init_hessian(x)}
    if driver in seedmap:
        yy = f(seedmap[driver]())
        before = plain(yy.data).copy()
        ex = (lambda: UTPM.extract_jacobian(yy)) if driver == 'jacobian' else (lambda: UTPM.extract_hessian(N, yy))
        r1 = flat(ex()).copy()
        r2 = flat(ex())
        ctx.eq(r2, r1, 'extract_%s twice gives the same' % driver)
        ctx.eq(plain(yy.data), before, 'extract_%s leaves the propagated polynomial unchanged' % driver)
    if driver == 'jacobian':
        J = flat(UTPM.extract_jacobian(f(UTPM.init_jacobian(x))))
        d1 = get_partials(ctx, f, xs, 1)
        Mo = len(d1[(0,)])
        ref = np.array([[d1[(n,)][k] for n in range(N)] for k in range(Mo)], dtype=object)
        ctx.eq(J.reshape(ref.shape), ref, 'extract_jacobian')
    elif driver == 'jac_vec':
        vs, v = vec(ctx, 'v', N)
        yy = f(UTPM.init_jac_vec(x, v))
        before = plain(yy.data).copy()
        r = flat(UTPM.extract_jac_vec(yy)).copy()
        ctx.eq(flat(UTPM.extract_jac_vec(yy)), r, 'extract_jac_vec twice gives the same')
        ctx.eq(plain(yy.data), before, 'extract_jac_vec leaves the propagated polynomial unchanged')
        d1 = get_partials(ctx, f, xs, 1)
        Mo = len(d1[(0,)])
        ref = np.array([sum(d1[(n,)][k] * vs[n] for n in range(N)) for k in range(Mo)], dtype=object)
        ctx.eq(r.reshape(ref.shape), ref, 'extract_jac_vec')
    elif driver == 'hessian':
        H = flat(UTPM.extract_hessian(N, f(UTPM.init_hessian(x))))
        d2 = get_partials(ctx, f, xs, 2)
        ref = np.array([[d2[(min(i, j), max(i, j))][0] for j in range(N)] for i in range(N)], dtype=object)
        ctx.eq(H, ref, 'extract_hessian')
    elif driver == 'hess_vec':
        vs, v = vec(ctx, 'v', N)
        yy = f(UTPM.init_hess_vec(x, v))
        before = plain(yy.data).copy()
        r = flat(UTPM.extract_hess_vec(N, yy)).copy()
        ctx.eq(flat(UTPM.extract_hess_vec(N, yy)), r, 'extract_hess_vec twice gives the same')
        ctx.eq(plain(yy.data), before, 'extract_hess_vec leaves the propagated polynomial unchanged')
        d2 = get_partials(ctx, f, xs, 2)
        ref = np.array([sum(d2[(min(i, j), max(i, j))][0] * vs[j] for j in range(N)) for i in range(N)], dtype=object)
        ctx.eq(r, ref, 'extract_hess_vec')
    else:
        raise KeyError(driver)


def h_complex_seeds(ctx):
    """complex seed points and complex directions at real (and integer) points: the polynomial
    x0^2 x1 + x1^3 + 2 x0 has the same closed-form derivatives over C; nothing is truncated to its
    real part.  Concrete numbers: decided on the float build."""
    algopy = symx.load_algopy()
    UTPM = algopy.UTPM
    if ctx.mode == 'sym':
        ctx.fact(True, 'complex seeds: decided on the float build')
        ctx.eq(S.const(0), S.const(0), 'drivers at complex seeds')
        return
    f = lambda x: x[0] * x[0] * x[1] + x[1] * x[1] * x[1] + 2. * x[0]
    grad = lambda a, b: np.array([2 * a * b + 2., a * a + 3 * b * b])
    hess = lambda a, b: np.array([[2 * b, 2 * a], [2 * a, 6 * b]])
    for label, x, v in (('complex point, complex direction', np.array([1 + 2j, 3 - 1j]), np.array([0.5 - 1j, 2 + 0.25j])),
                        ('real point, complex direction', np.array([1.5, -2.0]), np.array([0.5 - 1j, 2 + 0.25j])),
                        ('integer point, complex direction', np.array([1, 3]), np.array([1j, 2.0 + 0j])),
                        ('complex point, real direction', np.array([1 + 2j, 3 - 1j]), np.array([0.5, -2.0]))):
        a, b = complex(x[0]), complex(x[1])
        same = lambda got, ref, what: ctx.eq(np.asarray(got, dtype=complex), np.asarray(ref, dtype=complex), '%s: %s' % (label, what))
        try:
            same(UTPM.extract_jacobian(f(UTPM.init_jacobian(x))), grad(a, b), 'jacobian')
            same(UTPM.extract_jac_vec(f(UTPM.init_jac_vec(x, v))), grad(a, b).dot(v), 'jac_vec')
            same(UTPM.extract_hessian(2, f(UTPM.init_hessian(x))), hess(a, b), 'hessian')
            same(UTPM.extract_hess_vec(2, f(UTPM.init_hess_vec(x, v))), hess(a, b).dot(v), 'hess_vec')
            T = UTPM.extract_tensor(2, f(UTPM.init_tensor(2, x)))
            same(T, hess(a, b), 'tensor of order 2')
        except Exception as e:
            ctx.fact(False, '%s raised %s: %s' % (label, type(e).__name__, str(e)[:80]))


def h_matrix_seed(ctx, driver, layout):
    """the seed point is a 2x2 matrix (C-ordered, or a transposed = Fortran-ordered view): the
    drivers flatten it in row-major INDEX order, so the derivatives refer to numpy.ravel(X)"""
    algopy = symx.load_algopy()
    UTPM = algopy.UTPM
    N = 4
    mons, C = coeff_vars(ctx, 1, N, 3)
    f = program(algopy, C, mons, 'scalar')
    Xs = np.empty((2, 2), dtype=object)
    for idx in np.ndindex(2, 2):
        Xs[idx] = ctx.var('X%d%d' % idx)
    if ctx.mode == 'sym':
        base = npx.sarr(np.array(Xs.T, dtype=object).copy(), float)
    else:
        base = np.array(Xs.T.tolist(), dtype=float)
    Xarr = base.T if layout == 'F' else (base.T.copy())
    xs = [Xs[i, j] for i in range(2) for j in range(2)]          # row-major index order of X
    flat = lambda a: np.asarray(plain(np.asarray(a, dtype=object)), dtype=object)
    if driver == 'hessian':
        H = flat(UTPM.extract_hessian(N, f(UTPM.init_hessian(Xarr))))
        d2 = get_partials(ctx, f, xs, 2)
        ref = np.array([[d2[(min(i, j), max(i, j))][0] for j in range(N)] for i in range(N)], dtype=object)
        ctx.eq(H, ref, 'extract_hessian for a matrix-shaped seed point (%s layout)' % layout)
    else:
        u = UTPM.init_jacobian(Xarr)
        y = f(u.reshape((N,)) if u.ndim != 1 else u)
        J = flat(UTPM.extract_jacobian(y))
        d1 = get_partials(ctx, f, xs, 1)
        ref = np.array([d1[(n,)][0] for n in range(N)], dtype=object)
        ctx.eq(J.reshape(ref.shape), ref, 'extract_jacobian for a matrix-shaped seed point (%s layout)' % layout)


def h_tensor(ctx, N, d, m, full=False, point='float', scale=None):
    """extract_tensor at a concrete integer point: residual linear in the coefficients.
    point: how the seed point is given ('float' array, 'int' array, 'int32' array, python 'list' of
    ints); scale: the program is multiplied by this (tiny) factor and compared relative to it"""
    algopy = symx.load_algopy()
    UTPM = algopy.UTPM
    import algopy.exact_interpolation as ei
    mons, C = coeff_vars(ctx, 1, N, m, box=True)
    f0 = program(algopy, C, mons, 'scalar')
    sc = Fraction(scale) if scale is not None else Fraction(1)
    f = f0 if scale is None else (lambda x: f0(x) * (sc if ctx.mode == 'sym' else float(sc)))
    xi = [1, 2, 3, -1, 2][:N]
    x = {'float': lambda: np.array(xi, dtype=float), 'int': lambda: np.array(xi), 'int32': lambda: np.array(xi, dtype=np.int32),
         'list': lambda: list(xi)}[point]()
    y = f(UTPM.init_tensor(d, x))
    T = np.asarray(plain(np.asarray(UTPM.extract_tensor(N, y, as_full_matrix=full), dtype=object)), dtype=object)
    mi = ei.generate_multi_indices(N, d)
    # analytic: (1/alpha!) d^alpha f (x) = sum_beta c_beta binom(beta, alpha) x^(beta - alpha)
    def taylor_coeff(alpha):
        tot = 0
        for cb, b in zip(C[0], mons):
            if all(bb >= aa for bb, aa in zip(b, alpha)):
                w = Fraction(1)
                for bb, aa, xx in zip(b, alpha, xi):
                    w *= math.comb(bb, aa) * Fraction(xx) ** (bb - aa)
                tot = tot + cb * (w if ctx.mode == 'sym' else float(w))
        return tot * (sc if ctx.mode == 'sym' else float(sc))
    tol = Fraction(1, 10**9) * len(mons) * sc
    if not full:
        ctx.fact(T.shape == (mi.shape[0],), 'tensor shape %s' % (T.shape,))
        for i, alpha in enumerate(mi):
            ref = taylor_coeff(tuple(int(a) for a in alpha))
            if ctx.mode == 'sym':
                r = S.lift(T[i]) - S.lift(ref)
                ctx.holds(r <= tol, 'tensor[%s] - exact <= tol' % (tuple(alpha),))
                ctx.holds(r >= -tol, 'tensor[%s] - exact >= -tol' % (tuple(alpha),))
            else:
                ctx.eq(T[i] / float(sc), ref / float(sc), 'tensor[%s]' % (tuple(alpha),))
    else:
        # the default as_full_matrix=True: the full symmetric d-th derivative tensor of shape (N,)*d,
        # T[i1,..,id] = d^d f / dx_i1 .. dx_id = alpha! * (Taylor coefficient of alpha)
        ctx.fact(T.shape == (N,) * d, 'full derivative tensor has shape (N,)*d: %s' % (T.shape,))
        if T.shape != (N,) * d:
            return
        for idx in itertools.product(range(N), repeat=d):
            alpha = [0] * N
            for i in idx:
                alpha[i] += 1
            fact = 1
            for a in alpha:
                fact *= math.factorial(a)
            ref = taylor_coeff(tuple(alpha)) * fact
            if ctx.mode == 'sym':
                r = S.lift(T[idx]) - S.lift(ref)
                ctx.holds(r <= tol * fact, 'T%s - exact <= tol' % (list(idx),))
                ctx.holds(r >= -tol * fact, 'T%s - exact >= -tol' % (list(idx),))
            else:
                ctx.eq(T[idx] / float(sc), ref / float(sc), 'T%s' % (list(idx),))


def h_two_seeds(ctx, driver, mutate=False):
    """two seeds of the same shape alive at the same time (x1 = init(p1); x2 = init(p2); then f(x1)):
    every seed is an object of its own.  mutate: the first program updates its argument in place
    (x *= 2) before a second, unrelated seed of the same shape is made."""
    algopy = symx.load_algopy()
    UTPM = algopy.UTPM
    N = 2
    mons, C = coeff_vars(ctx, 1, N, 3)
    f = program(algopy, C, mons, 'scalar')
    p1 = [ctx.var('p1_%d' % i) for i in range(N)]
    p2 = [ctx.var('p2_%d' % i) for i in range(N)]
    arr = lambda p: (npx.sarr(np.array(p, dtype=object), float) if ctx.mode == 'sym' else np.array(p, dtype=float))
    flat = lambda a: np.asarray(plain(np.asarray(a, dtype=object)), dtype=object)
    init = {'jacobian': UTPM.init_jacobian, 'hessian': UTPM.init_hessian}[driver]
    ext = (lambda y: UTPM.extract_jacobian(y)) if driver == 'jacobian' else (lambda y: UTPM.extract_hessian(N, y))
    alone1 = flat(ext(f(init(arr(p1))))).copy()
    alone2 = flat(ext(f(init(arr(p2))))).copy()
    x1 = init(arr(p1))
    if mutate:
        def g(x):
            x *= 2.0
            return f(x)
        g(x1)
    x2 = init(arr(p2))
    if not mutate:
        ctx.eq(flat(ext(f(x1))), alone1, '%s at p1 while a second seed at p2 exists == %s at p1 alone' % (driver, driver))
    ctx.eq(flat(ext(f(x2))), alone2, '%s at p2 (second seed of the same shape) == %s at p2 alone' % (driver, driver))
    ctx.fact(not np.shares_memory(np.asarray(x1.data), np.asarray(x2.data)), 'two seeds do not share memory')


def h_tensor_valued(ctx, N, d, m, out='vector', full=False):
    """extract_tensor for vector- and matrix-valued programs: every output component gets the
    d-th order partial derivatives of that component (trailing axes = the program's result shape)"""
    algopy = symx.load_algopy()
    UTPM = algopy.UTPM
    import algopy.exact_interpolation as ei
    oshape = (2,) if out == 'vector' else (3, 2)
    M = int(np.prod(oshape))
    mons, C = coeff_vars(ctx, M, N, m, box=True)
    xi = [1, 2, 3, -1, 2][:N]

    def f(x):
        y = algopy.zeros(oshape, dtype=x)
        for k, idx in enumerate(np.ndindex(*oshape)):
            y[idx] = poly_eval(C[k], mons, x)
        return y
    y = f(UTPM.init_tensor(d, np.array(xi, dtype=float)))
    try:
        T = np.asarray(plain(np.asarray(UTPM.extract_tensor(N, y, as_full_matrix=full), dtype=object)), dtype=object)
    except Exception as e:
        ctx.fact(False, 'extract_tensor(as_full_matrix=%s) of a %s-valued program raised %s: %s' % (full, out, type(e).__name__, str(e)[:100]))
        return
    mi = ei.generate_multi_indices(N, d)

    def taylor_coeff(alpha, k):
        tot = 0
        for cb, b in zip(C[k], mons):
            if all(bb >= aa for bb, aa in zip(b, alpha)):
                w = Fraction(1)
                for bb, aa, xx in zip(b, alpha, xi):
                    w *= math.comb(bb, aa) * Fraction(xx) ** (bb - aa)
                tot = tot + cb * (w if ctx.mode == 'sym' else float(w))
        return tot
    tol = Fraction(1, 10**9) * len(mons)
    want_shape = ((mi.shape[0],) if not full else (N,) * d) + oshape
    ctx.fact(T.shape == want_shape, 'tensor shape %s == %s' % (T.shape, want_shape))
    if T.shape != want_shape:
        return
    lead = [(i, tuple(int(a) for a in alpha), 1) for i, alpha in enumerate(mi)] if not full else []
    if full:
        for idx in itertools.product(range(N), repeat=d):
            alpha = [0] * N
            for i in idx:
                alpha[i] += 1
            fact = 1
            for a in alpha:
                fact *= math.factorial(a)
            lead.append((idx, tuple(alpha), fact))
    for (pos, alpha, fact) in lead:
        for k, oidx in enumerate(np.ndindex(*oshape)):
            ref = taylor_coeff(alpha, k) * fact
            got = T[((pos,) if not full else tuple(pos)) + oidx]
            if ctx.mode == 'sym':
                r = S.lift(got) - S.lift(ref)
                ctx.holds(r <= tol * fact, 'T[%s][%s] - exact <= tol' % (pos, list(oidx)))
                ctx.holds(r >= -tol * fact, 'T[%s][%s] - exact >= -tol' % (pos, list(oidx)))
            else:
                ctx.eq(got, ref, 'T[%s][%s]' % (pos, list(oidx)))


def h_tensor_sequence(ctx, pairs):
    """several tensor extractions in one process, in particular (N,d) pairs with the same
    number of distinct partial derivatives"""
    for (N, d) in list(pairs) + list(pairs)[:1]:
        # distinct variable names per call
        sub_prefix = 'N%dd%d_' % (N, d)
        orig = ctx.var

        def pv(name, *a, **k):
            return orig(sub_prefix + name, *a, **k)
        ctx.var = pv
        try:
            h_tensor(ctx, N, d, d)
        finally:
            ctx.var = orig


def h_intpoint(ctx, driver, N):
    """integer-typed seed point (list of ints / integer array) with a smooth program"""
    algopy = symx.load_algopy()
    UTPM = algopy.UTPM
    f = lambda x: algopy.exp(x[0] * 0.5) * x[1] + x[0] / x[1]
    xi = [1, 2, 3][:N]
    x = np.array(xi)
    e = math.exp(0.5)
    if ctx.mode == 'sym':
        E = S.const(Fraction(1, 2)).exp()
    else:
        E = e
    g = [E * 2 / 2 + Fraction(1, 2), E - Fraction(1, 4)] + [0] * (N - 2)
    H = [[E * 2 / 4, E / 2 - Fraction(1, 4)] + [0] * (N - 2), [E / 2 - Fraction(1, 4), Fraction(1, 4)] + [0] * (N - 2)] + [[0] * N] * (N - 2)
    flat = lambda a: np.asarray(plain(np.asarray(a, dtype=object)), dtype=object)
    if driver == 'jacobian':
        ctx.eq(flat(UTPM.extract_jacobian(f(UTPM.init_jacobian(x)))).ravel(), np.array(g, dtype=object), 'jacobian at integer point')
    elif driver == 'hessian':
        ctx.eq(flat(UTPM.extract_hessian(N, f(UTPM.init_hessian(x)))), np.array(H, dtype=object), 'hessian at integer point')
    elif driver == 'hess_vec':
        vs, v = vec(ctx, 'v', N)
        ref = [sum(H[i][j] * vs[j] for j in range(N)) for i in range(N)]
        ctx.eq(flat(UTPM.extract_hess_vec(N, f(UTPM.init_hess_vec(x, v)))), np.array(ref, dtype=object), 'hess_vec at integer point')
    elif driver == 'jac_vec':
        vs, v = vec(ctx, 'v', N)
        ref = sum(g[j] * vs[j] for j in range(N))
        r = UTPM.extract_jac_vec(f(UTPM.init_jac_vec(x, v)))
        ctx.eq(flat(r).ravel(), np.array([ref], dtype=object), 'jac_vec at integer point')
    elif driver in ('tensor', 'tensor(list)', 'tensor(int32)'):
        xt = {'tensor': x, 'tensor(list)': list(xi), 'tensor(int32)': np.array(xi, dtype=np.int32)}[driver]
        T = UTPM.extract_tensor(N, f(UTPM.init_tensor(2, xt)))
        ctx.eq(flat(T), np.array(H, dtype=object), 'second-order tensor (as full matrix) at integer point')
        T1 = UTPM.extract_tensor(N, f(UTPM.init_tensor(1, xt)))
        ctx.eq(flat(T1).ravel(), np.array(g, dtype=object), 'first-order tensor at integer point')


def units(tier, seed):
    out = []
    opts = {'property': PROP, 'float_tol': 2e-4}

    def add(name, func, o=None, **kw):
        oo = dict(opts)
        oo.update(o or {})
        out.append(Unit('C09/' + name, 'symx.props.c09', func, kw, oo))

    m = 3 if tier == 'quick' else 4
    for N in ((1, 2, 3) if tier == 'quick' else (1, 2, 3, 4)):
        add('jacobian/N%d,M2,deg%d' % (N, m), 'h_driver', driver='jacobian', N=N, M=2, m=m)
        add('jac_vec/N%d,M2,deg%d' % (N, m), 'h_driver', driver='jac_vec', N=N, M=2, m=m)
        add('jac_vec/N%d,scalar,deg%d' % (N, m), 'h_driver', driver='jac_vec', N=N, M=1, m=m, kind='scalar')
        add('jacobian/N%d,scalar,deg%d' % (N, m), 'h_driver', driver='jacobian', N=N, M=1, m=m, kind='scalar')
    if tier != 'quick':
        for (N, M, mm) in [(2, 3, 5), (3, 3, 5), (5, 2, 3), (6, 1, 2), (2, 4, 6)]:
            add('jacobian/N%d,M%d,deg%d' % (N, M, mm), 'h_driver', driver='jacobian', N=N, M=M, m=mm)
            add('jac_vec/N%d,M%d,deg%d' % (N, M, mm), 'h_driver', driver='jac_vec', N=N, M=M, m=mm)
        for (N, mm) in [(2, 6), (3, 5), (6, 2)]:
            add('hessian/N%d,deg%d' % (N, mm), 'h_driver', driver='hessian', N=N, M=1, m=mm, kind='scalar')
            add('hess_vec/N%d,deg%d' % (N, mm), 'h_driver', driver='hess_vec', N=N, M=1, m=mm, kind='scalar')
    for N in ((1, 2, 3, 4) if tier == 'quick' else (1, 2, 3, 4, 5)):
        mm = min(m, 3) if N >= 4 else m
        add('hessian/N%d,deg%d' % (N, mm), 'h_driver', driver='hessian', N=N, M=1, m=mm, kind='scalar')
        add('hess_vec/N%d,deg%d' % (N, mm), 'h_driver', driver='hess_vec', N=N, M=1, m=mm, kind='scalar')
    for drv in ('jacobian', 'jac_vec', 'hessian', 'hess_vec'):
        add('%s/smooth exp-sin/N2' % drv, 'h_driver', driver=drv, N=2, M=1, m=0, smooth='exp-sin')
        add('%s/constant operands of higher rank/N3' % drv, 'h_driver', driver=drv, N=3, M=1, m=0, smooth='constant operands')
        add('%s/float and negative powers, base of either sign/N2' % drv, 'h_driver', driver=drv, N=2, M=1, m=0, smooth='float and negative powers')
        add('%s/in-place arithmetic/N3' % drv, 'h_driver', driver=drv, N=3, M=1, m=0, smooth='in-place')
        add('%s/rosenbrock with float exponents, any point/N3' % drv, 'h_driver', driver=drv, N=3, M=1, m=0, smooth='rosenbrock, float exponents')
        if drv in ('jacobian', 'jac_vec'):
            add('%s/matrix-valued result/N3' % drv, 'h_driver', driver=drv, N=3, M=1, m=0, smooth='matrix-valued')
        add('%s/integer-typed point' % drv, 'h_intpoint', o={'validate': False}, driver=drv, N=2)
    for drv in ('tensor', 'tensor(list)', 'tensor(int32)'):
        add('%s/integer-typed point' % drv, 'h_intpoint', o={'validate': False}, driver=drv, N=2)
    add('complex seed points and directions (float-decided)', 'h_complex_seeds')
    for layout in ('C', 'F'):
        add('hessian/matrix-shaped seed point/%s layout' % layout, 'h_matrix_seed', driver='hessian', layout=layout)
    for (N, d) in ([(1, 2), (2, 2), (2, 3), (3, 2), (2, 4)] if tier == 'quick' else
                   [(1, 2), (1, 3), (2, 2), (2, 3), (3, 2), (2, 4), (3, 3), (4, 2), (2, 5), (3, 4), (4, 3), (5, 2), (2, 6), (1, 6)]):
        add('tensor/N%d,d%d' % (N, d), 'h_tensor', o={'validate': False}, N=N, d=d, m=d + 1)
    for drv in ('jacobian', 'hessian'):
        add('%s/two seeds of the same shape alive at once' % drv, 'h_two_seeds', driver=drv)
        add('%s/a program that updates its seed in place, then a second seed' % drv, 'h_two_seeds', driver=drv, mutate=True)
    for full in (False, True):
        add('tensor of a vector-valued program/N3,d1,%s' % ('full' if full else 'compact'), 'h_tensor_valued', N=3, d=1, m=2, out='vector', full=full)
        add('tensor of a matrix-valued program/N2,d1,%s' % ('full' if full else 'compact'), 'h_tensor_valued', N=2, d=1, m=2, out='matrix', full=full)
    for outk in ('vector', 'matrix'):
        for full in (False, True):
            add('tensor of a %s-valued program/N2,d2,%s' % (outk, 'full' if full else 'compact'), 'h_tensor_valued', N=2, d=2, m=3, out=outk, full=full)
    add('tensor of a vector-valued program/N3,d3,compact', 'h_tensor_valued', N=3, d=3, m=3, out='vector', full=False)
    for pt in ('int', 'list', 'int32'):
        add('tensor/N2,d3/seed point given as %s' % pt, 'h_tensor', N=2, d=3, m=4, point=pt)
        add('full derivative tensor/N3,d2/seed point given as %s' % pt, 'h_tensor', N=3, d=2, m=3, full=True, point=pt)
    for sc in ('3/100000000000000', '1/100000000000000000000'):
        add('tensor/N2,d3/program scaled by %s' % sc, 'h_tensor', N=2, d=3, m=4, scale=sc)
        add('full derivative tensor/N2,d2/program scaled by %s' % sc, 'h_tensor', N=2, d=2, m=3, full=True, scale=sc)
    for pairs in [[(3, 2), (2, 5)], [(2, 2), (3, 1)], [(2, 3), (4, 1)]]:
        add('tensor sequence %s' % pairs, 'h_tensor_sequence', o={'validate': False}, pairs=pairs)
    for N in (2, 3):
        add('tensor-as-hessian/N%d' % N, 'h_tensor', o={'validate': False}, N=N, d=2, m=3, full=True)
    for (N_, d_) in [(2, 3), (3, 3), (2, 1), (1, 3), (2, 4)]:
        add('full derivative tensor/N%d,d%d' % (N_, d_), 'h_tensor', o={'validate': False}, N=N_, d=d_, m=d_ + 1, full=True)
    return out
