"""C06  Results are independent of call history.

Per program and history (a sequence over forward evaluations of different
kinds/degrees, reverse sweeps with fresh seeds, driver calls, and recording /
evaluating a second graph): every call's result on the long-lived graph is
proved equal to the same call on a freshly recorded graph; results returned
earlier must still hold their values at the end of the history; forward values
of all nodes are unchanged (term identity) by a reverse sweep."""
import itertools
import random

import numpy as np

import symx
from .. import sym as S
from .. import npx, ops as O
from .. import programs as PR
from ..runner import Unit
from .common import plain
from .c03 import Namespace, make_consts, get_prog, record, pullback_guard
from .c05 import make_value, value_of
from .c04 import _arr, _flat, _vec

PROP = 'C06'
EXPLANATION = ('C06: programs and histories are enumerated (all sequences up to a length bound over a fixed alphabet '
               'plus a seeded sample of longer ones); all points, seeds and vectors are independent symbols.')

ALPHABET = ['F22', 'Fnd', 'F11', 'F32', 'PB', 'GRAD', 'JAC', 'HV', 'VH', 'VHV', 'JV', 'OTHER', 'SAME']
KINDS = {'F22': ('utpm', 2, 2), 'Fnd': 'nd', 'F11': ('utpm', 1, 1), 'F32': ('utpm', 3, 2)}


def _copy(v):
    return np.array(plain(np.asarray(v, dtype=object)), dtype=object).copy() if not np.isscalar(v) and not isinstance(v, (S.Sym,)) \
        else np.array([v], dtype=object)


def do_call(ctx, algopy, A, prog, cg, fx, fy, step, k, state, fresh):
    """perform call `step` (index k in the history) on graph cg; `state` holds
    the last forward input of THIS graph.  Returns (label, result array or None)."""
    N = int(np.prod(prog.shape))
    scalar_out = (np.ndim(fy.x) == 0) if not isinstance(fy.x, algopy.UTPM) else (fy.x.ndim == 0)
    if step in KINDS:
        arg, X = make_value(ctx, prog, KINDS[step], 'x%d_' % k)
        xin = O.wrap(ctx, algopy, arg, X)
        out = cg.function([xin])[0]
        state['last'] = (arg, X) if KINDS[step] != 'nd' else None
        state['obj'] = xin if KINDS[step] != 'nd' else None
        return 'forward', value_of(out, algopy)
    if step == 'SAME':
        # forward evaluation with the SAME input object as the previous forward call of this graph,
        # its contents overwritten in place with new values (a caller re-using its argument buffer)
        arg, X = make_value(ctx, prog, ('utpm', 2, 2), 'x%d_' % k)
        new = O.wrap(ctx, algopy, arg, X)
        obj = None if fresh else state.get('obj')
        if obj is not None and tuple(obj.data.shape) == tuple(new.data.shape):
            obj.data[...] = new.data
            xin = obj
        else:
            xin = new
        out = cg.function([xin])[0]
        state['last'] = (arg, X)
        state['obj'] = xin
        return 'forward (argument object re-used)', value_of(out, algopy)
    if step == 'PB':
        if state.get('last') is None:
            arg, X = make_value(ctx, prog, ('utpm', 2, 2), 'x%d_' % k)
            cg.pushforward([O.wrap(ctx, algopy, arg, X)])
            state['last'] = (arg, X)
        elif fresh:
            arg, X = state['last']
            cg.pushforward([O.wrap(ctx, algopy, arg, X)])
        y = cg.dependentFunctionList[0].x
        YB = np.empty(plain(y.data).shape, dtype=object)
        for idx in np.ndindex(*YB.shape):
            YB[idx] = ctx.var('ybar%d_%s' % (k, list(idx)))
        ybar = O.wrap(ctx, algopy, O.Arg('utpm', YB.shape[2:]), YB)
        before = [plain(f.x.data).copy() for f in cg.functionList if isinstance(f.x, algopy.UTPM)]
        seedcopy = plain(ybar.data).copy()
        if not pullback_guard(ctx, algopy, cg, [ybar], 'pullback (step %d)' % k):
            return 'pullback', None
        if not fresh:
            after = [plain(f.x.data) for f in cg.functionList if isinstance(f.x, algopy.UTPM)]
            for i, (b, a) in enumerate(zip(before, after)):
                ctx.eq(a, b, 'step %d: forward value of node %d unchanged by the reverse sweep' % (k, i))
            ctx.eq(plain(ybar.data), seedcopy, 'step %d: user seed unchanged' % k)
        return 'pullback', plain(cg.independentFunctionList[0].xbar.data)
    # drivers
    xarg, X = make_value(ctx, prog, 'nd', 'x%d_' % k)
    x = _arr(ctx, list(X.ravel()))
    state['last'] = None
    M = int(fy.size) if hasattr(fy, 'size') else 1
    if step == 'GRAD':
        if scalar_out:
            return 'gradient', plain(np.asarray(cg.gradient(x), dtype=object))
        return 'jacobian', plain(np.asarray(cg.jacobian(x), dtype=object))
    if step == 'JAC':
        return 'jacobian', plain(np.asarray(cg.jacobian(x), dtype=object))
    if step == 'HV':
        if scalar_out:
            v = _vec(ctx, 'v%d' % k, N)
            return 'hess_vec', plain(np.asarray(cg.hess_vec(x, _arr(ctx, v)), dtype=object))
        w = _vec(ctx, 'w%d' % k, M)
        return 'vec_jac', plain(np.asarray(cg.vec_jac(_arr(ctx, w), x), dtype=object))
    if step == 'VH' or (step == 'VHV' and M != N):
        w = _vec(ctx, 'w%d' % k, M)
        return 'vec_hess', plain(np.asarray(cg.vec_hess(_arr(ctx, w), x), dtype=object))
    if step == 'VHV':
        w = _vec(ctx, 'w%d' % k, M)
        v = _vec(ctx, 'v%d' % k, N)
        return 'vec_hess_vec', plain(np.asarray(cg.vec_hess_vec(_arr(ctx, w), x, _arr(ctx, v)), dtype=object))
    if step == 'JV':
        v = _vec(ctx, 'v%d' % k, N)
        return 'jac_vec', plain(np.asarray(cg.jac_vec(x, _arr(ctx, v)), dtype=object))
    raise KeyError(step)


def other_graph(ctx, algopy, A, k):
    """record and evaluate an unrelated graph in between"""
    p2 = PR.Prog('o', None, shape=(2,))
    arg, R = make_value(ctx, p2, ('utpm', 2, 1), 'o%d_' % k)
    cg2 = algopy.CGraph()
    f2 = algopy.Function(O.wrap(ctx, algopy, arg, R))
    y2 = A.exp(f2) * f2
    cg2.trace_off()
    cg2.independentFunctionList = [f2]
    cg2.dependentFunctionList = [y2]
    cg2.pushforward([O.wrap(ctx, algopy, arg, R)])
    cg2.pullback([y2.x.zeros_like() + 1.0])
    return cg2


def h_history(ctx, pname, seq):
    algopy = symx.load_algopy()
    prog = get_prog(pname)
    A = Namespace(algopy, make_consts(ctx, prog))
    rarg, R = make_value(ctx, prog, ('utpm', 1, 1), 'r')

    def rec():
        return record(ctx, algopy, A, prog, O.wrap(ctx, algopy, rarg, R))
    cg, fx, fy = rec()
    state = {}
    kept = []
    for k, step in enumerate(seq):
        if step == 'OTHER':
            other_graph(ctx, algopy, A, k)
            algopy.Function.cgraph = None
            continue
        snapshot = dict(state)
        try:
            label, got = do_call(ctx, algopy, A, prog, cg, fx, fy, step, k, state, fresh=False)
        except Exception as e:
            last = [l for l in str(e).strip().splitlines() if l.strip()]
            ctx.fact(False, 'step %d (%s) raised %s: %s' % (k, step, type(e).__name__, last[-1][:160] if last else ''))
            return
        # the same call on a fresh graph (same symbols: ctx.var is idempotent per name)
        cgf, fxf, fyf = rec()
        fstate = dict(snapshot)
        try:
            _, want = do_call(ctx, algopy, A, prog, cgf, fxf, fyf, step, k, fstate, fresh=True)
        except Exception as e:
            ctx.note('fresh-graph reference raised for step %d (%s): %s' % (k, step, type(e).__name__))
            return
        if got is None or want is None:
            continue
        ctx.fact(np.shape(got) == np.shape(want), 'step %d (%s): shape %s vs fresh %s' % (k, step, np.shape(got), np.shape(want)))
        if np.shape(got) == np.shape(want):
            ctx.eq(got, want, 'step %d (%s) == fresh graph' % (k, label))
            kept.append((k, label, got, np.array(want, dtype=object).copy()))
    # results handed out earlier still hold their values
    for k, label, got, want in kept:
        ctx.eq(got, want, 'result of step %d (%s) still intact at the end' % (k, label))


def histories(tier, seed):
    rng = random.Random(100 + seed)
    hs = []
    base = ['F22', 'Fnd', 'PB', 'GRAD', 'HV', 'VHV', 'OTHER'] if tier == 'quick' else ALPHABET
    for a in base:
        for b in base:
            if a == 'OTHER' and b == 'OTHER':
                continue
            hs.append((a, b))
    if tier != 'quick':
        for t in itertools.product(['F22', 'Fnd', 'PB', 'GRAD', 'HV'], repeat=3):
            hs.append(t)
    n_long = 10 if tier == 'quick' else 60
    for _ in range(n_long):
        L = rng.choice([3, 4]) if tier == 'quick' else rng.choice([3, 4, 5])
        hs.append(tuple(rng.choice(ALPHABET) for _ in range(L)))
    # the documented row-by-row Jacobian assembly: several sweeps after one forward evaluation
    hs.append(('F22', 'PB', 'PB'))
    hs.append(('F22', 'PB', 'PB', 'PB'))
    # a caller that re-uses one argument object and overwrites its contents between calls
    for h in (('F22', 'SAME'), ('F22', 'SAME', 'PB'), ('SAME', 'SAME'), ('F22', 'PB', 'SAME', 'PB'), ('SAME', 'GRAD', 'SAME')):
        hs.append(h)
    return sorted(set(hs))


PROGS_Q = ['lu(2x2)', 'cholesky(outer(x,x)+I)', 'sqrt(x)*x[0]', 'x*x', 'sin(x)*x', 'x/(1+x*x)', 'sum(x*exp(x)/(1+x0*x1)+sin(x)*x[::-1])', 'tan(x)*x', 'buffer', 'buffer-overwrite', 'exp(dot)']
PROGS_T = PROGS_Q + ['x[1:]*x[:-1]', 'log(sum sq)', 'prod', 'x**3', 'expit', 'erf', 'x*x[::-1]', 'x**2.5', 'reciprocal', 'log']


def h_gradient_shape_history(ctx):
    """cg.gradient on a scalar program called with a scalar, then with a vector of points (a
    vector-valued result: refused), then with the scalar again: whether a call returns a value or
    raises depends on its argument only, and the values agree.  Concrete numbers: decided on the
    float build."""
    algopy = symx.load_algopy()
    if ctx.mode == 'sym':
        ctx.fact(True, 'call histories with changing argument shapes: decided on the float build')
        ctx.eq(S.const(0), S.const(0), 'gradient')
        return
    cg = algopy.CGraph()
    x = algopy.Function(3.)
    y = x * x * algopy.sin(x)
    cg.trace_off()
    cg.independentFunctionList = [x]
    cg.dependentFunctionList = [y]
    d = lambda t: 2 * t * np.sin(t) + t * t * np.cos(t)

    def call(arg):
        try:
            return ('value', np.asarray(cg.gradient(arg), dtype=float))
        except Exception as e:
            return ('raises', None)
    seq = [np.array(2.), np.array([2., 3.]), np.array(2.), np.array([2., 3.]), np.array([1.5]), np.array(0.5), [0.5]]
    first = {}
    for k, arg in enumerate(seq):
        key = repr(arg)
        r = call(arg)
        if key in first:
            ctx.fact(r[0] == first[key][0], 'call %d, gradient(%s): %s the first time, %s now' % (k, key, first[key][0], r[0]))
            if r[0] == 'value' and first[key][0] == 'value':
                ctx.eq(r[1], first[key][1], 'call %d, gradient(%s) == its first value' % (k, key))
        else:
            first[key] = r
        if r[0] == 'value' and np.size(arg) == 1:
            ctx.eq(np.ravel(r[1]), np.ravel(d(np.asarray(arg, dtype=float))), 'call %d, gradient(%s) == closed form' % (k, key))


def units(tier, seed):
    out = []
    opts = {'property': PROP, 'path_budget': 600, 'validate_paths': 2}
    hs = histories(tier, seed)
    out.append(Unit('C06/gradient called with arguments of changing shape (scalar, vector of points, scalar)', 'symx.props.c06', 'h_gradient_shape_history', {}, dict(opts)))
    progs = PROGS_Q if tier == 'quick' else PROGS_T
    rng = random.Random(7 + seed)
    for pn in progs:
        if pn == 'cholesky(outer(x,x)+I)':
            chosen = [('PB', 'PB'), ('F22', 'PB', 'PB'), ('GRAD', 'GRAD'), ('GRAD', 'PB'), ('PB', 'OTHER', 'PB'), ('HV', 'GRAD'), ('F22', 'GRAD')]
        elif pn == 'lu(2x2)':
            chosen = [('PB', 'PB'), ('F22', 'PB', 'PB'), ('PB', 'F11', 'PB'), ('F11', 'PB'), ('PB', 'OTHER', 'PB')]
        elif tier == 'quick':
            chosen = [h for h in hs if len(h) <= 2][:: 2 if pn not in ('tan(x)*x', 'buffer-overwrite', 'buffer') else 1]
            chosen += [h for h in hs if len(h) > 2][:6] + [('F22', 'PB', 'PB')] + [h for h in hs if 'SAME' in h][:5]
        elif True:
            chosen = hs if pn in PROGS_Q else [h for h in hs if len(h) <= 2] + rng.sample([h for h in hs if len(h) > 2], 30)
        for h in sorted(set(chosen)):
            out.append(Unit('C06/%s/%s' % (pn, '>'.join(h)), 'symx.props.c06', 'h_history', {'pname': pn, 'seq': list(h)}, dict(opts)))
    # every program of the catalogue through the row-by-row pattern (one forward evaluation, two reverse sweeps):
    # a pullback kernel that scribbles on the forward values or on its seed shows here
    seen = set(progs)
    for prog in PR.catalogue():
        if prog.name in seen or 'slow' in prog.tags or 'heavy' in prog.tags or any(t.startswith('fac:') for t in prog.tags) or 'utpmonly' in prog.tags or 'clip' in prog.tags:
            continue
        branching = 'clip' in prog.tags or 'lu' in prog.tags or 'posdet' in prog.tags or prog.name in ('absolute', 'sign')
        hsel = [('F22', 'PB', 'PB')] if tier == 'quick' else [('F22', 'PB', 'PB'), ('F22', 'PB', 'SAME', 'PB'), ('F32', 'PB', 'F11', 'PB')]     # (no driver calls here: they are defined for functions R^N -> R^M only)
        if branching:
            hsel = [('F11', 'PB', 'PB')]      # (one branch per element and direction: a single direction)
        elif prog.group == 'buffer' and tier == 'quick':
            hsel = hsel + [('F22', 'F22', 'PB')]      # (buffers and constant nodes: a second forward evaluation before the sweep)
        for h in hsel:
            out.append(Unit('C06/%s/%s' % (prog.name, '>'.join(h)), 'symx.props.c06', 'h_history', {'pname': prog.name, 'seq': list(h)}, dict(opts)))
    # using a finished graph while another one is being recorded is part of a call history too
    for what in ('function', 'gradient', 'pushforward+pullback'):
        out.append(Unit('C06/another graph used while recording (%s)' % what, 'symx.props.c05', 'h_interleaved',
                        {'rec': 'nd', 'replay': ('utpm', 2, 2), 'what': what}, dict(opts)))
    return out
