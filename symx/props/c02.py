"""C02  Arithmetic is exact truncated power-series arithmetic for every operand mix.

Unit = (operator form, left kind, right kind, shapes, D, P, real/complex).
Oracle: per output element (NumPy broadcasting computed on index arrays) the
sum / difference / Cauchy product of the two coefficient sequences; quotient
through its defining equation z*y = x; constants are degree-zero polynomials.
Also decided: reflected and in-place forms equal the binary expression, the
logical result dtype is the NumPy promotion and no imaginary part is lost."""
import itertools
import operator
from fractions import Fraction

import numpy as np

import symx
from .. import sym as S
from .. import lib, npx
from ..runner import Unit
from .common import mk_utpm, mk_array, plain

PROP = 'C02'
EXPLANATION = 'C02: operand kinds {UTPM, python scalar, numpy scalar, ndarray} x position x broadcast shape pairs.'


def _scalar(ctx, name, cplx):
    if cplx:
        re, im = ctx.var(name + '.re'), ctx.var(name + '.im')
        if ctx.mode == 'sym':
            return S.SymC(re, im)
        return complex(re, im)
    return ctx.var(name)


def make_operand(ctx, algopy, kind, name, shape, D, P, cplx, scale=None):
    """returns (object, coeff) with coeff(d, p, idx) the d-th coefficient of the
    element idx in direction p as a number of the run's type"""
    shape = tuple(shape)
    sym = ctx.mode == 'sym'
    if kind == 'utpm':
        X = np.empty((D, P) + shape, dtype=object)
        for idx in np.ndindex(*X.shape):
            X[idx] = _scalar(ctx, '%s%s' % (name, list(idx)), cplx)
            if scale is not None:
                # operand of extreme magnitude (every coefficient times 2**k)
                X[idx] = X[idx] * (Fraction(2) ** scale if sym else 2.0 ** scale)
        if sym:
            obj = algopy.UTPM(npx.sarr(X, complex if cplx else float))
        else:
            # (mk_utpm applies the storage layout asked for by the unit: Fortran order, strided directions)
            obj = mk_utpm(ctx, algopy, np.array(X.tolist(), dtype=complex if cplx else float).reshape(X.shape))
        return obj, (lambda d, p, idx: X[(d, p) + idx])
    if kind == 'ndarray':
        A = np.empty(shape, dtype=object)
        for idx in np.ndindex(*shape):
            A[idx] = _scalar(ctx, '%s%s' % (name, list(idx)), cplx)
        if sym:
            obj = npx.sarr(A, complex if cplx else float)
        else:
            obj = np.array(A.tolist(), dtype=complex if cplx else float).reshape(shape)
        return obj, (lambda d, p, idx: A[idx] if d == 0 else 0)
    if kind == 'pyscalar':
        c = _scalar(ctx, name, cplx)
        return c, (lambda d, p, idx: c if d == 0 else 0)
    if kind == 'pyint':
        return 3, (lambda d, p, idx: 3 if d == 0 else 0)
    if kind == 'npscalar':
        c = np.complex128(0.75 - 1.25j) if cplx else np.float64(0.75)
        cv = (S.SymC(Fraction(3, 4), Fraction(-5, 4)) if cplx else Fraction(3, 4)) if sym else c
        return c, (lambda d, p, idx: cv if d == 0 else 0)
    if kind == 'npint':
        return np.int64(2), (lambda d, p, idx: 2 if d == 0 else 0)
    if kind == 'npfloat32':
        return np.float32(0.5), (lambda d, p, idx: (Fraction(1, 2) if sym else 0.5) if d == 0 else 0)
    if kind == 'pybool':
        return True, (lambda d, p, idx: 1 if d == 0 else 0)
    if kind == 'nd0':
        # 0-d ndarray constant
        return np.array(0.75), (lambda d, p, idx: (Fraction(3, 4) if sym else 0.75) if d == 0 else 0)
    if kind == 'npint8':
        return np.int8(-3), (lambda d, p, idx: -3 if d == 0 else 0)
    raise KeyError(kind)


def kshape(kind, shape):
    return tuple(shape) if kind in ('utpm', 'ndarray') else ()


def _bidx(shape, out_shape):
    """index map of numpy broadcasting: out index -> operand index"""
    idx = np.empty(shape, dtype=object)
    for i in np.ndindex(*shape):
        idx[i] = i
    return np.broadcast_to(idx, out_shape)


def expected_kind(lk, rk, lc, rc, op):
    return 'c' if (lc or rc) else 'f'


def logical_kind(ctx, z):
    dt = z.data.dtype
    if isinstance(dt, npx.LDtype):
        return dt.kind
    return dt.kind


OPS = {
    'add': operator.add, 'sub': operator.sub, 'mul': operator.mul, 'div': operator.truediv,
}
IOPS = {
    'add': operator.iadd, 'sub': operator.isub, 'mul': operator.imul, 'div': operator.itruediv,
}


def h_binop(ctx, op, lkind, rkind, lshape, rshape, D, P, lc=False, rc=False, form='binary', lscale=None, rscale=None):
    algopy = symx.load_algopy()
    ls, rs = kshape(lkind, lshape), kshape(rkind, rshape)
    try:
        oshape = np.broadcast_shapes(ls, rs)
    except ValueError:
        return
    if form == 'inplace' and oshape != ls:
        return
    x, xc = make_operand(ctx, algopy, lkind, 'x', lshape, D, P, lc, lscale)
    y, yc = make_operand(ctx, algopy, rkind, 'y', rshape, D, P, rc, rscale)
    if op == 'div':
        # non-zero divisor base coefficient
        for p in range(P):
            for idx in np.ndindex(*rs):
                y0 = yc(0, p, idx)
                if rc and ctx.mode == 'sym' and isinstance(y0, S.SymC):
                    ctx.assume(y0.re * y0.re + y0.im * y0.im != 0)
                elif isinstance(y0, (S.Sym,)):
                    ctx.assume(y0 != 0)
                elif ctx.mode == 'float':
                    ctx.assume(abs(y0) > 1e-3 * (2.0 ** rscale if rscale else 1.0))
    xsnap = plain(x.data).copy() if lkind == 'utpm' else None
    ysnap = plain(y.data).copy() if rkind == 'utpm' else None
    try:
        if form == 'binary':
            z = OPS[op](x, y)
        else:
            zb = OPS[op](x, y)
            # a second operand object with the same values AND the same storage layout (x.copy() would be C-ordered)
            z, _ = make_operand(ctx, algopy, lkind, 'x', lshape, D, P, lc, lscale)
            z = IOPS[op](z, y)
            ctx.eq(plain(z.data), plain(zb.data), 'inplace==binary')
    except Exception as e:
        ctx.fact(False, '%s %s %s (shapes %s,%s) raised %s: %s' % (lkind, op, rkind, ls, rs, type(e).__name__, str(e)[:120]))
        return
    ctx.fact(isinstance(z, algopy.UTPM), 'result is a UTPM')
    if not isinstance(z, algopy.UTPM):
        return
    Z = plain(z.data)
    ctx.fact(Z.shape == (D, P) + oshape, 'result shape %s == %s' % (Z.shape, (D, P) + oshape))
    if Z.shape != (D, P) + oshape:
        return
    if form == 'binary':
        want = expected_kind(lkind, rkind, lc, rc, op)
        ctx.fact(logical_kind(ctx, z) == want, 'result dtype kind %s == %s' % (logical_kind(ctx, z), want))
    li, ri = _bidx(ls, oshape), _bidx(rs, oshape)
    for p in range(P):
        for o in np.ndindex(*oshape):
            xs = [xc(d, p, li[o]) for d in range(D)]
            ys = [yc(d, p, ri[o]) for d in range(D)]
            zs = [Z[(d, p) + o] for d in range(D)]
            if op == 'add':
                ref = [a + b for a, b in zip(xs, ys)]
            elif op == 'sub':
                ref = [a - b for a, b in zip(xs, ys)]
            elif op == 'mul':
                ref = lib.ps_mul(xs, ys, D)
            else:
                # defining equation  z * y = x
                prod = lib.ps_mul(zs, ys, D)
                for d in range(D):
                    ctx.eq(prod[d], xs[d], '(z*y)[%d,%d,%s]==x' % (d, p, list(o)))
                continue
            for d in range(D):
                ctx.eq(zs[d], ref[d], 'z[%d,%d,%s]' % (d, p, list(o)))
    # operands untouched (non in-place)
    if xsnap is not None and form == 'binary':
        ctx.eq(plain(x.data), xsnap, 'left operand unchanged')
    if ysnap is not None:
        ctx.eq(plain(y.data), ysnap, 'right operand unchanged')


def h_inplace_rank(ctx, op, rkind, rshape, D, P):
    """x op= r with a right operand that does not broadcast INTO x.shape: NumPy raises for the
    plain arrays (an in-place operator cannot change the shape of its left operand) and so must
    the polynomial operator -- it may not silently combine the extra axis with the direction or
    coefficient axis, or keep only one row of r"""
    import operator
    algopy = symx.load_algopy()
    X = np.empty((D, P, 3), dtype=object)
    for idx in np.ndindex(*X.shape):
        X[idx] = ctx.var('x%s' % list(idx))
    x = mk_utpm(ctx, algopy, X)
    before = plain(x.data).copy()
    if rkind == 'utpm':
        R = np.empty((D, P) + tuple(rshape), dtype=object)
    else:
        R = np.empty(tuple(rshape), dtype=object)
    for idx in np.ndindex(*R.shape):
        R[idx] = ctx.var('r%s' % list(idx), pos=True)
    r = mk_utpm(ctx, algopy, R) if rkind == 'utpm' else mk_array(ctx, R)
    f = {'add': operator.iadd, 'sub': operator.isub, 'mul': operator.imul, 'div': operator.itruediv}[op]
    try:
        f(x, r)
        raised = False
    except ValueError:
        raised = True
    ctx.fact(raised, 'x(3,) %s= %s%s raises ValueError as for ndarrays (result shape %s)' % (op, rkind, tuple(rshape), tuple(x.shape)))
    if raised:
        ctx.eq(plain(x.data), before, 'left operand untouched by the rejected operation')


def math_fact(k):
    import math
    return math.factorial(k - 1) if k >= 1 else 1


def h_pow_kinds(ctx, which, D, P):
    """powers with non-UTPM base / exponent kinds, against the C01 oracle"""
    algopy = symx.load_algopy()
    X = np.empty((D, P, 2), dtype=object)
    # the zeroth coefficient is positive only where the power needs it (real / complex exponents); integer
    # exponents n >= 0 take any base (zero included), negative ones any non-zero base
    needs_pos = which == 'array_exp_real_more_axes' or which in ('npfloat_exp', 'pycomplex_exp', 'npcomplex_exp', 'npcomplex64_exp', 'nd0complex_exp')
    for idx in np.ndindex(*X.shape):
        X[idx] = ctx.var('x%s' % list(idx), pos=(idx[0] == 0 and needs_pos))
        if idx[0] == 0 and which == 'negint_exp':
            ctx.assume(X[idx] != 0)
    x = mk_utpm(ctx, algopy, X)
    if which == 'pyfloat_base':
        z = 2.0 ** x
        table = lambda x0: lib.d_rpow(ctx, x0, D - 1, c=lib.num(ctx, 2))
    elif which == 'pyint_base':
        z = 2 ** x
        table = lambda x0: lib.d_rpow(ctx, x0, D - 1, c=lib.num(ctx, 2))
    elif which == 'npfloat_exp':
        z = x ** np.float64(1.5)
        table = lambda x0: lib.d_powr(ctx, x0, D - 1, r=Fraction(3, 2))
    elif which == 'npint_exp':
        z = x ** np.int64(3)
        table = lambda x0: lib.d_powi(ctx, x0, D - 1, n=3)
    elif which.startswith('pyint_exp'):
        n = int(which[len('pyint_exp'):])
        z = x ** n
        table = lambda x0: lib.d_powi(ctx, x0, D - 1, n=n)
    elif which.startswith('intvalued_'):
        # integer-valued exponents of non-integer type: exact repeated multiplication, any base
        r, n = {'intvalued_pyfloat2': (2.0, 2), 'intvalued_npfloat3': (np.float64(3.0), 3), 'intvalued_float32_2': (np.float32(2.0), 2),
                'intvalued_nd0int2': (np.array(2), 2), 'intvalued_nd0float4': (np.array(4.0), 4), 'intvalued_pyfloat6': (6.0, 6),
                'intvalued_int8_3': (np.int8(3), 3), 'intvalued_uint8_2': (np.uint8(2), 2)}[which]
        z = x ** r
        table = lambda x0: lib.d_powi(ctx, x0, D - 1, n=n)
    elif which == 'negint_exp':
        z = x ** (-2)
        table = lambda x0: lib.d_powi(ctx, x0, D - 1, n=-2)
    elif which in ('uint8_base', 'int8_base', 'float32_base', 'float16_base', 'int16_base'):
        # bases of a narrow numpy type: the constant acts as the real number it holds
        c = {'uint8_base': np.uint8(3), 'int8_base': np.int8(3), 'float32_base': np.float32(2.5), 'float16_base': np.float16(2.5),
             'int16_base': np.int16(300)}[which]
        z = c ** x
        table = lambda x0: lib.d_rpow(ctx, x0, D - 1, c=lib.num(ctx, Fraction(float(c))))
    elif which == 'bigint_base':
        z = (10 ** 30) ** x
        table = lambda x0: lib.d_rpow(ctx, x0, D - 1, c=lib.num(ctx, Fraction(10 ** 30)))
    elif which in ('pycomplex_exp', 'npcomplex_exp', 'npcomplex64_exp', 'nd0complex_exp'):
        # real base, complex scalar exponent: decided on the float build (the symbolic layer has
        # no complex power atom); reference exp(r * log x) by composition
        if ctx.mode == 'sym':
            ctx.fact(True, 'complex exponent: decided on the float build')
            ctx.eq(S.const(0), S.const(0), 'z')
            return
        r = {'pycomplex_exp': (1.5 + 0.5j), 'npcomplex_exp': np.complex128(1.5 + 0.5j), 'npcomplex64_exp': np.complex64(1.5 + 0.5j), 'nd0complex_exp': np.array(1.5 + 0.5j)}[which]
        z = x ** r
        Z = plain(z.data)
        ctx.fact(np.iscomplexobj(Z), 'real ** complex scalar is complex')
        for p in range(P):
            for i in range(2):
                xs = [X[d, p, i] for d in range(D)]
                L = lib.compose(lib.d_log(ctx, xs[0], D - 1), xs, D)
                M = [complex(r) * l for l in L]
                import cmath
                ref = lib.compose([cmath.exp(M[0])] * D, M, D)
                for d in range(D):
                    ctx.eq(Z[d, p, i], ref[d], 'z[%d,%d,%d]' % (d, p, i))
        return
    elif which.startswith('array_exp_'):
        # an ARRAY of exponents: broadcast against the shape of x like the operand of any other
        # operator (result shape = NumPy broadcast shape for every P), element-wise power;
        # whole-number entries take the exact path (any base, zero included)
        r = {'array_exp_int_same_shape': np.array([1, 3]), 'array_exp_int_more_axes': np.array([[0, 1], [2, 3], [1, 1]]),
             'array_exp_intvalued_float': np.array([2.0, 1.0]), 'array_exp_list': [2, 3],
             'array_exp_real_more_axes': np.array([[1.5, 0.5], [2.5, -0.5]]), 'array_exp_column': np.array([[2], [3]])}[which]
        z = x ** r
        ra = np.asarray(r)
        oshape = np.broadcast_shapes((2,), ra.shape)
        Z = plain(z.data)
        ctx.fact(Z.shape == (D, P) + oshape, 'x(2,) ** exponents%s has shape %s (P = %d): %s' % (ra.shape, oshape, P, Z.shape[2:]))
        if Z.shape != (D, P) + oshape:
            return
        rb = np.broadcast_to(ra, oshape)
        for p in range(P):
            for o in np.ndindex(*oshape):
                xs = [X[d, p, o[-1]] for d in range(D)]
                e = rb[o]
                if float(e).is_integer():
                    tab = lib.d_powi(ctx, xs[0], D - 1, n=int(e))
                else:
                    tab = lib.d_powr(ctx, xs[0], D - 1, r=Fraction(float(e)))
                ref = lib.compose(tab, xs, D)
                for d in range(D):
                    ctx.eq(Z[(d, p) + o], ref[d], 'z[%d,%d,%s]' % (d, p, o))
        return
    elif which in ('huge_int_exp', 'huge_intvalued_float_exp'):
        # x ** n with n = 2**31 - 1 (as in (1 + r/n)**n): the value against exp(n log x) by composition,
        # and the call must come back (a product per unit of n would take hours).  Concrete
        # numbers, a wall-clock guard of 60 s: decided on the float build.
        if ctx.mode == 'sym':
            ctx.fact(True, 'huge exponent: decided on the float build')
            ctx.eq(S.const(0), S.const(0), 'z')
            return
        import threading
        n = 2 ** 31 - 1
        r = n if which == 'huge_int_exp' else float(n)
        Xc = np.array([[[1.0 + 2.0 ** -31, 1.0 - 2.0 ** -32]] * P] + [[[2.0 ** -31 * (d + 1), -2.0 ** -33 * d]] * P for d in range(1, D)])
        box = {}

        def run():
            try:
                box['z'] = (algopy.UTPM(Xc.copy()) ** r).data
            except Exception as e:
                box['e'] = e
        th = threading.Thread(target=run, daemon=True)
        th.start()
        th.join(60.0)
        ctx.fact('z' in box, 'x ** %r returns within 60 s%s' % (r, ' (raised %s)' % type(box['e']).__name__ if 'e' in box else ''))
        if 'z' not in box:
            return
        import math
        for p in range(P):
            for i in range(2):
                xs = [float(Xc[d, p, i]) for d in range(D)]
                L = lib.compose(lib.d_log(ctx, xs[0], D - 1), xs, D)
                M = [n * l for l in L]
                ref = lib.compose([math.exp(M[0])] * D, M, D)
                for d in range(D):
                    ctx.fact(abs(box['z'][d, p, i] - ref[d]) <= 1e-6 * max(1.0, abs(ref[d])), '(x ** %r)[%d,%d,%d] == exp(n log x) to 1e-6 (got %r, expected %r)' % (r, d, p, i, box['z'][d, p, i], ref[d]))
        return
    elif which == 'negpolybase_complex_poly':
        # real POLYNOMIAL base with a negative zeroth coefficient, complex polynomial exponent:
        # exp(z log x) with the complex logarithm; decided on the float build
        if ctx.mode == 'sym':
            ctx.fact(True, 'complex polynomial exponent: decided on the float build')
            ctx.eq(S.const(0), S.const(0), 'z')
            return
        import cmath
        Xb = np.array([[[-(1.5 + abs(float(X[0, p, i]))) if d == 0 else float(X[d, p, i]) for i in range(2)] for p in range(P)] for d in range(D)])
        Zc = np.array([[[complex(0.5 * float(X[d, p, 1 - i]), 0.3 * (d + 1) - 0.2 * i) for i in range(2)] for p in range(P)] for d in range(D)])
        w = plain((algopy.UTPM(Xb.copy()) ** algopy.UTPM(Zc.copy())).data)
        for p in range(P):
            for i in range(2):
                xs = [complex(Xb[d, p, i]) for d in range(D)]
                L = lib.compose([cmath.log(xs[0])] + [(-1) ** (k + 1) * math_fact(k) / xs[0] ** k for k in range(1, D)], xs, D)
                M = [sum(L[k] * Zc[d - k, p, i] for k in range(d + 1)) for d in range(D)]
                ref = lib.compose([cmath.exp(M[0])] * D, M, D)
                for d in range(D):
                    ctx.eq(w[d, p, i], ref[d], '(x ** z)[%d,%d,%d], x_0 < 0' % (d, p, i))
        return
    elif which in ('negbase_complex_poly', 'posbase_complex_poly'):
        # real scalar base (negative: log on the principal complex branch), COMPLEX polynomial exponent:
        # decided on the float build, reference exp(log(b) * z) by composition
        if ctx.mode == 'sym':
            ctx.fact(True, 'complex polynomial exponent: decided on the float build')
            ctx.eq(S.const(0), S.const(0), 'z')
            return
        import cmath
        b = -2.0 if which == 'negbase_complex_poly' else 2.5
        Zc = np.array([[[complex(X[d, p, i], 0.3 * (d + 1) - 0.2 * i) for i in range(2)] for p in range(P)] for d in range(D)])
        w = plain((b ** algopy.UTPM(Zc.copy())).data)
        Lb = cmath.log(complex(b))
        for p in range(P):
            for i in range(2):
                M = [Lb * Zc[d, p, i] for d in range(D)]
                ref = lib.compose([cmath.exp(M[0])] * D, M, D)
                for d in range(D):
                    ctx.eq(w[d, p, i], ref[d], '(%s ** z)[%d,%d,%d]' % (b, d, p, i))
        return
    else:
        raise KeyError(which)
    Z = plain(z.data)
    for p in range(P):
        for i in range(2):
            xs = [X[d, p, i] for d in range(D)]
            ref = lib.compose(table(xs[0]), xs, D)
            for d in range(D):
                ctx.eq(Z[d, p, i], ref[d], 'z[%d,%d,%d]' % (d, p, i))


SHAPES_Q = [(), (2,), (1, 2), (2, 1), (2, 2), (3, 1, 2)]


def units(tier, seed):
    out = []

    def add(name, func, **kw):
        out.append(Unit('C02/' + name, 'symx.props.c02', func, kw, {'property': PROP}))

    D, P = (3, 2) if tier == 'quick' else (6, 3)
    shapes = SHAPES_Q if tier == 'quick' else SHAPES_Q + [(1,), (P, 2), (2, 1, 1)]
    pairs = []
    for ls, rs in itertools.product(shapes, shapes):
        try:
            np.broadcast_shapes(ls, rs)
        except ValueError:
            continue
        pairs.append((ls, rs))
    if tier == 'quick':
        # a spread of pairs incl. constant array with more dims than the polynomial
        keep = [((2,), (2,)), ((2, 2), (2,)), ((2,), (2, 2)), ((1, 2), (2, 1)), ((2, 1), (1, 2)),
                ((), (2,)), ((2,), ()), ((2,), (3, 1, 2)), ((3, 1, 2), (2,)), ((2, 2), (2, 2)), ((), ())]
        pairs = [p for p in pairs if p in keep]
    D0, P0 = D, P
    for (D, P) in ([(D0, P0)] if tier == 'quick' else [(D0, P0), (10, 2), (14, 1)]):
      base_add = add
      if (D, P) != (D0, P0):
        def add(name, func, _D=D, _P=P, **kw):
            base_add(name + ' [D%d,P%d]' % (_D, _P), func, **kw)
      if True:
        for op in ('add', 'sub', 'mul', 'div'):
            for ls, rs in pairs:
                add('utpm %s utpm/%s,%s/D%d,P%d' % (op, ls, rs, D, P), 'h_binop', op=op, lkind='utpm', rkind='utpm',
                    lshape=ls, rshape=rs, D=D, P=P)
                add('utpm %s ndarray/%s,%s/D%d,P%d' % (op, ls, rs, D, P), 'h_binop', op=op, lkind='utpm', rkind='ndarray',
                    lshape=ls, rshape=rs, D=D, P=P)
                add('ndarray %s utpm/%s,%s/D%d,P%d' % (op, ls, rs, D, P), 'h_binop', op=op, lkind='ndarray', rkind='utpm',
                    lshape=ls, rshape=rs, D=D, P=P)
            # a constant array whose leading axis equals P
            add('utpm %s ndarray/(2,),(P,2)' % op, 'h_binop', op=op, lkind='utpm', rkind='ndarray', lshape=(2,), rshape=(P, 2), D=D, P=P)
            add('ndarray %s utpm/(P,2),(2,)' % op, 'h_binop', op=op, lkind='ndarray', rkind='utpm', lshape=(P, 2), rshape=(2,), D=D, P=P)
            add('ndarray %s utpm/(P,),()' % op, 'h_binop', op=op, lkind='ndarray', rkind='utpm', lshape=(P,), rshape=(), D=D, P=P)
            for sk in ('pyscalar', 'pyint', 'npscalar', 'npint', 'npfloat32', 'pybool', 'nd0', 'npint8'):
                for sh in ((), (2,), (2, 2)) if sk in ('pyscalar', 'pyint', 'npscalar', 'npint') else ((), (2,)):
                    add('utpm %s %s/%s' % (op, sk, sh), 'h_binop', op=op, lkind='utpm', rkind=sk, lshape=sh, rshape=(), D=D, P=P)
                    add('%s %s utpm/%s' % (sk, op, sh), 'h_binop', op=op, lkind=sk, rkind='utpm', lshape=(), rshape=sh, D=D, P=P)
            # in-place forms
            for rk, rs in (('utpm', (2,)), ('utpm', (1,)), ('utpm', ()), ('ndarray', (2,)), ('pyscalar', ()), ('npscalar', ()), ('utpm', (2, 2)),
                           ('pyint', ()), ('npint', ()), ('npfloat32', ()), ('nd0', ()), ('ndarray', (1,))):
                for ls in ((2,), (2, 2)):
                    add('utpm %s= %s/%s,%s' % (op, rk, ls, rs), 'h_binop', op=op, lkind='utpm', rkind=rk, lshape=ls, rshape=rs,
                        D=D, P=P, form='inplace')
            # real / complex mixes
            for lk, rk in (('utpm', 'utpm'), ('utpm', 'ndarray'), ('ndarray', 'utpm'), ('utpm', 'pyscalar'), ('pyscalar', 'utpm'),
                           ('utpm', 'npscalar'), ('npscalar', 'utpm')):
                for lc, rc in ((False, True), (True, False), (True, True)):
                    add('%s %s %s/complex(%s,%s)' % (lk, op, rk, lc, rc), 'h_binop', op=op, lkind=lk, rkind=rk,
                        lshape=(2,), rshape=(2,), D=D, P=(1 if tier == 'quick' else 2), lc=lc, rc=rc)
      add = base_add
    D, P = D0, P0
    # storage layouts of the left operand that reshape / ravel shortcuts cannot handle without a copy
    for lay in ('FULL_F', 'PVIEW'):
        for op in ('add', 'sub', 'mul', 'div'):
            for rk, rs in (('pyscalar', ()), ('npscalar', ()), ('ndarray', (2,)), ('utpm', (2,)), ('utpm', (2, 2))):
                out.append(Unit('C02/utpm %s= %s/(2, 2),%s/left operand stored as %s' % (op, rk, rs, lay), 'symx.props.c02', 'h_binop',
                                dict(op=op, lkind='utpm', rkind=rk, lshape=(2, 2), rshape=rs, D=3, P=2, form='inplace'), {'property': PROP, 'layout': lay}))
            out.append(Unit('C02/utpm %s utpm/(2, 2),(2,)/operands stored as %s' % (op, lay), 'symx.props.c02', 'h_binop',
                            dict(op=op, lkind='utpm', rkind='utpm', lshape=(2, 2), rshape=(2,), D=3, P=2), {'property': PROP, 'layout': lay}))
    # one-element constant arrays of higher rank than the polynomial (the result takes the constant's rank)
    for op in ('add', 'sub', 'mul', 'div'):
        for ls, rs in (((2,), (1, 1)), ((), (1,)), ((2, 2), (1, 1, 1)), ((3,), (1, 1))):
            add('utpm %s ndarray/%s,%s (one-element constant of higher rank)' % (op, ls, rs), 'h_binop', op=op, lkind='utpm', rkind='ndarray', lshape=ls, rshape=rs, D=D, P=P)
            add('ndarray %s utpm/%s,%s (one-element constant of higher rank)' % (op, rs, ls), 'h_binop', op=op, lkind='ndarray', rkind='utpm', lshape=rs, rshape=ls, D=D, P=P)
    # in-place forms whose right operand overlaps the left one (the result is that of the out-of-place operator
    # on the old values): harness of C14
    from . import c14
    for opn in c14.BIN:
        for form, shp in [('x op= x', (2,)), ('x op= x[::-1]', (3,)), ('x op= x.T', (2, 2)), ('x op= x[0]', (2, 2)), ('x op= x[0:1]', (2, 2))]:
            out.append(Unit('C02/in-place, overlapping right operand/%s/%s/%s' % (form, opn, shp), 'symx.props.c14', 'h_alias',
                            {'opn': opn, 'form': form, 'shape': shp, 'D': 3, 'P': 2}, {'property': PROP}))
    for op in ('add', 'sub', 'mul', 'div'):
        for rkind, rshape in (('utpm', (2, 3)), ('ndarray', (3, 3)), ('ndarray', (2, 3)), ('ndarray', (2, 2, 3)), ('utpm', (3, 1))):
            add('utpm(3,) %s= %s%s must raise (D2, P2 and P3)' % (op, rkind, rshape), 'h_inplace_rank', op=op, rkind=rkind, rshape=rshape, D=2, P=(3 if rshape[0] == 3 else 2))
    # operands of extreme magnitude (2**600, 2**-600): intermediate squares over/underflow in floats
    for op in ('mul', 'div'):
        for k in (600, -600):
            for form in ('binary', 'inplace'):
                for rc in ((False, True) if op == 'mul' else (False,)):     # (symbolic complex division squares the modulus: the float evaluator of the validation overflows)
                    add('utpm %s%s utpm/(2,),(2,)/right operand times 2**%d%s' % (op, '=' if form == 'inplace' else '', k, ', complex' if rc else ''),
                        'h_binop', op=op, lkind='utpm', rkind='utpm', lshape=(2,), rshape=(2,), D=3, P=1, lc=rc, rc=rc, form=form, rscale=k)
    # long polynomials (fast paths that switch on for large D)
    for op in ('mul', 'div'):
        add('utpm %s utpm/(),()/D17,P1' % op, 'h_binop', op=op, lkind='utpm', rkind='utpm', lshape=(), rshape=(), D=17, P=1)
        add('utpm %s= utpm/(2,),(2,)/D17,P1' % op, 'h_binop', op=op, lkind='utpm', rkind='utpm', lshape=(2,), rshape=(2,), D=17, P=1, form='inplace')
    for which in ('uint8_base', 'int8_base', 'float32_base', 'float16_base', 'int16_base', 'bigint_base', 'pycomplex_exp', 'npcomplex_exp', 'npcomplex64_exp', 'nd0complex_exp', 'negbase_complex_poly', 'posbase_complex_poly', 'negpolybase_complex_poly', 'huge_int_exp', 'huge_intvalued_float_exp'):
        add('pow/%s' % which, 'h_pow_kinds', which=which, D=D + 1, P=P)
    for which in ('pyfloat_base', 'pyint_base', 'npfloat_exp', 'npint_exp', 'negint_exp', 'pyint_exp0', 'pyint_exp1', 'pyint_exp2', 'pyint_exp3', 'pyint_exp4', 'pyint_exp5', 'pyint_exp7', 'pyint_exp6', 'pyint_exp9',
                  'intvalued_pyfloat2', 'intvalued_npfloat3', 'intvalued_float32_2', 'intvalued_nd0int2', 'intvalued_nd0float4', 'intvalued_pyfloat6', 'intvalued_int8_3', 'intvalued_uint8_2',
                  'array_exp_int_same_shape', 'array_exp_int_more_axes', 'array_exp_intvalued_float', 'array_exp_list', 'array_exp_real_more_axes', 'array_exp_column'):
        add('pow/%s' % which, 'h_pow_kinds', which=which, D=D + 1, P=P)
    return out
