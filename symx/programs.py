"""Program catalogue for the tracer properties (C03-C06).

A program is a python function  f(A, x) -> y  written against the algopy
namespace A, so that it can be evaluated on Function nodes (recording), on
UTPM instances (forward mode) and on plain arrays.  Inputs are single arrays
(vector or matrix); outputs single arrays or scalars."""
import random
from fractions import Fraction

import numpy as np


class Prog(object):
    def __init__(self, name, f, shape=(3,), dom='any', group='misc', tags=(), consts=None):
        self.name = name
        self.f = f
        self.shape = tuple(shape)
        self.dom = dom            # domain of every input element's zeroth coefficient
        self.group = group
        self.tags = set(tags)
        self.consts = consts      # name -> shape of symbolic constant arrays passed as A.c[name]


def _buf1(A, x):
    b = A.zeros(3, dtype=x)
    b[0] = x[0] * x[1]
    b[1] = x[2]
    b[2] = b[0] * x[0]
    return b


def _buf_overwrite(A, x):
    # a buffer entry is overwritten after an earlier node has used it
    b = A.zeros(2, dtype=x)
    b[0] = x[0] * x[1]
    z = A.sin(b[0])
    b[0] = x[2]
    b[1] = z
    return b[0] * b[0] + b[1]


def _buf_view(A, x):
    b = A.zeros((2, 2), dtype=x)
    b[0, 0] = x[0]
    b[0, 1] = x[1] * x[2]
    b[1, 0] = x[2]
    b[1, 1] = x[0] * x[0]
    r = b[1]
    return A.dot(b, r)


def _copy_idiom(A, x):
    b = A.zeros(2, dtype=x)
    b[0] = x[0] * x[1]
    b[1] = x[2]
    c = b + 0              # copy idiom
    d = 0. + b
    b[0] = x[2] * x[2]
    return c * b + d


def _buf_bcast_rows(A, x):
    # the right hand side is broadcast into the selected block of the buffer
    b = A.zeros((2, 3), dtype=x)
    b[...] = x
    return b * A.c['m']


def _buf_bcast_scalar(A, x):
    b = A.zeros(3, dtype=x)
    b[0:2] = x[0] * x[1]
    b[2] = x[2]
    return b * x


def _buf_bcast_cols(A, x):
    b = A.zeros((2, 3), dtype=x)
    b[:, 0:2] = x[0:2]
    b[:, 2] = x[2]
    return b * b


def _buf_consts(A, x):
    # plain python / numpy constants stored next to computed entries
    b = A.zeros(4, dtype=x)
    b[0] = 1.5
    b[1] = x[0] * x[1]
    b[2] = 2
    b[3] = x[2]
    return b * b[::-1] + b


def _buf_const_array(A, x):
    # an ndarray constant written into a slice of a traced buffer
    b = A.zeros(3, dtype=x)
    b[0:2] = np.array([3., 4.])
    b[2] = x[0] * x[1]
    return b * x


def _buf_shift_down(A, x):
    # in-place write whose right hand side is an overlapping view of the same buffer
    y = x * 1.0
    y[0:2] = y[1:3]
    return y * x


def _buf_shift_up(A, x):
    y = x * 1.0
    y[1:3] = y[0:2]
    return y * x


def _buf_self(A, x):
    y = x * 1.0
    y[...] = y[::-1]
    return y * x


def _inplace_through_view(A, x):
    # augmented assignment on a VIEW of a buffer writes through to the buffer (numpy semantics)
    buf = A.zeros(3, dtype=x)
    buf[...] = x
    head = buf[:2]
    head += x[1:]
    head *= 2.0
    return buf * x


def _ipow_through_view(A, x):
    # **= on a view of a buffer writes through, like += -= *= /=
    buf = A.zeros(3, dtype=x)
    buf[...] = x
    head = buf[0:2]
    head **= 2
    tail = buf[2:]
    tail **= 3
    return buf * 1.0 + x


def _accumulator_0d(A, x):
    # augmented assignment on entries of a buffer and on a 0-d accumulator (the result of sum)
    buf = A.zeros(2, dtype=x)
    for i in range(3):
        buf[i % 2] += x[i] * x[i]
    s = A.sum(buf)
    s += 1.0
    s *= x[0]
    return x * s


def _const_node_updated(A, x):
    # a constant NODE (not an independent) that the program updates in place
    s = A.const(np.array([1.0, 2.0, 4.0]))
    s *= 0.5
    s += 1.0
    return x * s


def _const_node_returned(A, x):
    # the updated constant node IS the result: every evaluation must hand out its own array
    acc = A.const(np.array([1.0, 2.0, 4.0]))
    acc += x * x
    acc *= 2.0
    return acc


def _const_node_updated_through_view(A, x):
    # the constant node is only ever written through a VIEW of itself
    buf = A.const(np.array([[1.0, 2.0, 4.0], [0.5, 0.25, 3.0]]))
    row = buf[0]
    row *= 0.5
    row += 1.0
    col = buf[:, 1]
    col -= 2.0
    return x * buf[0] + buf[1]


def _inplace_alias(A, x):
    z = x * 1.0
    w = z
    w += 10.0
    w /= x
    return z * x


def _flat_read(A, x):
    # .flat is a traced read as well
    return x * x.flat[3]


def _scratch_constant(A, x):
    # one scratch ndarray re-used for several data-independent weight vectors
    w = np.zeros(3)
    acc = x * 0.0
    for k in range(3):
        w[:] = 0.0
        w[k] = k + 1.0
        acc = acc + w * x
    return acc * x


def _scratch_constant_dot(A, x):
    # the same, with the scratch array as a constant operand of dot (either side) and outer
    w = np.zeros(3)
    acc = x[0] * 0.0
    for k in range(3):
        w[:] = 0.5
        w[k] = k + 2.0
        acc = acc + A.dot(w, x) * (k + 1.0) + A.dot(x * x, w)
    M = np.zeros((3, 3))
    M[0, 1] = 2.0
    y = A.dot(M, x)
    M[0, 1] = 0.0
    M[2, 0] = 3.0
    return (y + A.dot(x, M)) * acc


def _buf_bcast_same_rank(A, x):
    # right-hand sides of the SAME rank as the selected block, broadcast along a size-1 axis
    b = A.zeros((2, 3), dtype=x)
    b[:, :] = x[0:1, :]               # (1,3) into (2,3)
    c = A.zeros((2, 3), dtype=x)
    c[:, 0:2] = x[:, 2:3]             # (2,1) into (2,2)
    c[:, 2:3] = x[:, 0:1] * x[:, 1:2]
    return b * A.c['m'] + c * c


def _buf_reset_to_constant(A, x):
    # a slot that held a computed value is reset to a constant (python float, numpy scalar,
    # ndarray) after its value was consumed: the constant carries no adjoint
    b = A.zeros(4, dtype=x)
    b[0] = x[0] * x[1]
    b[1:3] = x[1:3] * x[0]
    b[3] = x[2]
    y = b * x[0]
    b[0] = 3.0
    b[1:3] = np.array([0.5, -2.0])
    b[3] = np.float64(1.5)
    return A.sum(b * b) * x + y[0:3] * y[3]


def _inplace_on_element(A, x):
    # augmented assignment on a single ELEMENT taken from a buffer: for polynomial operands the
    # element is a 0-d view and the update writes through to the buffer
    buf = A.zeros(3, dtype=x)
    buf[...] = x * x
    v = buf[0]
    v += x[1]
    v *= x[2]
    w = buf[2]
    w -= 1.5
    return buf * x


def _setitem_advanced(A, x):
    # item assignment through advanced indices: computed values and constants
    y = A.zeros(3, dtype=x)
    y[[0, 2]] = x[:2] * x[1:]
    y[np.array([False, True, False])] = x[0:1] * x[2:3]
    z = x * x
    z[np.array([True, False, True])] = 0.
    z[[1]] = z[[1]] * x[[0]]
    return y * y + z * x


def _setitem_repeated_index(A, x):
    # an index list that names one entry twice: the LAST value written wins (NumPy semantics),
    # the overwritten one has no influence on the result
    y = A.zeros(3, dtype=x)
    y[[0, 0, 2]] = x * x
    w = A.zeros((2, 3), dtype=x)
    w[[1, 1], [2, 2]] = x[:2] * x[1:]
    w[0, [1, 1, 0]] = A.sin(x)
    return y * x + w[0] * w[1] + w[1]


def _index_separated(A, x):
    # advanced indices separated by a slice (NumPy moves the index axes to the front), read and written
    a = x[0, :, [0, 1]]                   # shape (2, 3)
    b = x[[0, 1], :, [1, 0]]              # shape (2, 3)
    y = A.zeros((2, 3, 2), dtype=x)
    y[[1, 0], :, [0, 1]] = a * b
    y[0, 1:, [1]] = x[1, 1:, [0]] * 2.0
    return y * x + A.sum(a * b)


def _setitem_list_rhs(A, x):
    # constants given as python lists / tuples on the right of an item assignment
    y = A.zeros((2, 3), dtype=x)
    y[0] = x * x
    y[1, ::2] = [5., 6.]
    y[1, 1] = x[0] * x[2]
    y[0, 1:] = (0.5, 0.25)
    return y[0] * y[1] + x


def _real_of_real_alias(A, x):
    # numpy.real of real data is the array itself: a write through the result changes the operand
    z = 1.0 * x
    y = A.real(z)
    y[0] = x[1] * x[2]
    return z * z


def _scratch_index_and_exponent(A, x):
    # scratch arrays used as INDEX and as EXPONENT, changed in place between uses; a constant
    # matrix refilled between two products
    idx = np.array([0, 1])
    y = x[idx]
    idx += 1
    y = y + x[idx]
    il = [0, 2]
    z = x[il]
    il[0] = 1
    z = z * x[il]
    r = np.array([2., 3.])
    y = y ** r
    r[:] = 1.0
    M = np.array([[2., 0.], [1., 1.]])
    w = A.dot(M, y)
    M[...] = np.array([[1., 3.], [0., 2.]])
    w = A.dot(M, w)
    return w * z


def _scratch_index_setitem(A, x):
    # item ASSIGNMENT through a scratch index array that is refilled between the writes; views of the
    # overwritten entries are consumed non-linearly before the writes
    buf = A.zeros(3, dtype=x)
    buf[...] = x
    idx = np.array([0, 1])
    v = buf[0:2]
    w = v * v
    buf[idx] = buf[0:2] * x[2]
    idx[:] = [1, 2]
    w2 = buf[1:3] * buf[1:3]
    buf[idx] = w2 * x[0]
    idx[:] = [0, 0]
    return buf * A.sum(w)


def _scratch_index_in_tuple(A, x):
    # a scratch index array INSIDE an index tuple (x[idx, 1]), refilled between uses
    idx = np.array([0, 2])
    a = x[idx, 1]
    idx[:] = [1, 1]
    b = x[idx, 0]
    idx[:] = [1, 0]
    c = x[1:, idx[0:1]]
    idx[:] = [0, 0]
    return a * b + A.sum(c)


def _paused(A, x):
    # recording is suspended with trace_off() and resumed with trace_on(): what ran while
    # recording was on is on the tape, what ran in between is not
    u = x * x * x - 2.0 * x
    A.pause()
    t = u * 5.0 + A.exp(x)
    A.resume()
    b = A.zeros(3, dtype=x)
    b[0] = 3.0 * u[0]
    b[1] = u[1] + x[2]
    b[2] = u[2] * u[0]
    return b * x + A.sin(u)


def _paused_twice(A, x):
    u = A.sin(x)
    A.pause()
    A.resume()
    v = u * x
    A.pause()
    w = v * v
    A.resume()
    return v * u + x


def catalogue(ndonly=False):
    """programs tagged 'ndonly' (plain-array buffers that take traced values: no polynomial
    recording possible) are listed only on request"""
    P = []

    def add(name, f, **kw):
        P.append(Prog(name, f, **kw))

    # ---- arithmetic ----------------------------------------------------------
    add('x*x', lambda A, x: x * x, group='arith')
    add('x*x[::-1]', lambda A, x: x * x[::-1], group='arith')
    add('x+2x', lambda A, x: x + 2.0 * x, group='arith')
    add('3x-x*x', lambda A, x: 3.0 * x - x * x, group='arith')
    add('x/(1+x*x)', lambda A, x: x / (1. + x * x), group='arith')
    add('1/x', lambda A, x: 1. / x, dom='nonzero', group='arith')
    add('x/x[::-1]', lambda A, x: x / x[::-1], dom='nonzero', group='arith')
    add('-x', lambda A, x: -x, group='arith')
    add('x-const', lambda A, x: x - 1.5, group='arith')
    add('const-x', lambda A, x: 1.5 - x, group='arith')
    add('carr*x', lambda A, x: A.c['c'] * x, group='arith', consts={'c': (3,)})
    add('x*carr', lambda A, x: x * A.c['c'], group='arith', consts={'c': (3,)})
    add('x+carr', lambda A, x: x + A.c['c'], group='arith', consts={'c': (3,)})
    add('carr-x', lambda A, x: A.c['c'] - x, group='arith', consts={'c': (3,)})
    add('x/carr', lambda A, x: x / A.c['c'], group='arith', consts={'c': (3,)}, tags=['cnonzero'])
    add('carr/x', lambda A, x: A.c['c'] / x, dom='nonzero', group='arith', consts={'c': (3,)})
    # the traced operand is broadcast against a constant of higher rank / larger shape
    add('x*cmat (x broadcast up)', lambda A, x: x * A.c['m'], group='arith', consts={'m': (2, 3)})
    add('cmat*x (x broadcast up)', lambda A, x: A.c['m'] * x, group='arith', consts={'m': (2, 3)})
    add('x+cmat (x broadcast up)', lambda A, x: x + A.c['m'], group='arith', consts={'m': (2, 3)})
    add('cmat-x (x broadcast up)', lambda A, x: A.c['m'] - x, group='arith', consts={'m': (2, 3)})
    add('x-cmat (x broadcast up)', lambda A, x: x - A.c['m'], group='arith', consts={'m': (2, 3)})
    add('x/cmat (x broadcast up)', lambda A, x: x / A.c['m'], group='arith', consts={'m': (2, 3)}, tags=['cnonzero'])
    add('cmat/x (x broadcast up)', lambda A, x: A.c['m'] / x, dom='nonzero', group='arith', consts={'m': (2, 3)})
    add('xcol*cmat (column broadcast)', lambda A, x: x * A.c['m'], shape=(2, 1), group='arith', consts={'m': (2, 3)})
    add('x[0]*carr (0-d broadcast)', lambda A, x: x[0] * A.c['c'] + x, group='arith', consts={'c': (3,)})
    add('x*x[0] (broadcast)', lambda A, x: x * x[0], group='arith')
    add('mat*vec (broadcast)', lambda A, x: x * x[0], shape=(2, 2), group='arith')
    add('x[0]+x (broadcast)', lambda A, x: x[0] + x, group='arith')
    add('x**2', lambda A, x: x ** 2, group='pow')
    add('x**3', lambda A, x: x ** 3, group='pow')
    add('x**4', lambda A, x: x ** 4, group='pow')
    add('x**-2', lambda A, x: x ** -2, dom='nonzero', group='pow')
    add('x**-1', lambda A, x: x ** -1, dom='nonzero', group='pow')
    add('x**2.5', lambda A, x: x ** 2.5, dom='pos', group='pow')
    add('x**-0.5', lambda A, x: x ** -0.5, dom='pos', group='pow')
    add('x**1', lambda A, x: x ** 1, group='pow')
    add('x**int64(2)', lambda A, x: x ** np.int64(2), group='pow')
    add('x**int32(3)*c', lambda A, x: x ** np.int32(3) * A.c['c'], group='pow', consts={'c': (3,)})
    add('x**6', lambda A, x: x ** 6, group='pow')
    add('x**2.0', lambda A, x: x ** 2.0, group='pow')
    add('x**3.0', lambda A, x: x ** 3.0, group='pow')
    add('sum((x-c)**2.)', lambda A, x: A.sum((x - A.c['c']) ** 2.), group='pow', consts={'c': (3,)})
    add('x**array(2)', lambda A, x: x ** np.array(2), group='pow')
    add('sum(x**array([1,2,3])*x[::-1])', lambda A, x: A.sum(x ** np.array([1, 2, 3]) * x[::-1]), group='pow')
    add('x**array([2.,0.,3.])', lambda A, x: x ** np.array([2., 0., 3.]) + x, group='pow')
    add('x**-2.0', lambda A, x: x ** -2.0, dom='nonzero', group='pow')
    # ---- elementary / special ------------------------------------------------
    for name, dom in [('exp', 'any'), ('expm1', 'any'), ('log', 'pos'), ('log1p', 'gtm1'), ('sqrt', 'pos'),
                      ('sin', 'any'), ('cos', 'any'), ('square', 'any'), ('reciprocal', 'nonzero'),
                      ('negative', 'any'), ('absolute', 'nonzero'), ('sign', 'nonzero')]:
        add(name, (lambda n: lambda A, x: getattr(A, n)(x))(name), dom=dom, group='elem')
    for name, dom in [('erf', 'any'), ('erfi', 'any'), ('dawsn', 'any'), ('logit', 'unit'), ('expit', 'any'),
                      ('gammaln', 'pos'), ('psi', 'pos')]:
        add(name, (lambda n: lambda A, x: getattr(A.special, n)(x))(name), dom=dom, group='special')
    add('tan', lambda A, x: A.tan(x), group='elem', tags=['halfangle'])
    add('polygamma1', lambda A, x: A.special.polygamma(1, x), dom='pos', group='special')
    add('hyperu', lambda A, x: A.special.hyperu(1.5, 0.5, x), dom='pos', group='special')
    add('botched_clip', lambda A, x: A.special.botched_clip(-0.5, 0.5, x), group='special', tags=['clip'])
    add('botched_clip on the bounds', lambda A, x: A.special.botched_clip(-0.5, 0.5, x) * x, group='special', tags=['clip', 'clip-bound'])
    # ---- indexing / views / buffers -------------------------------------------
    add('x[0]*x[1]', lambda A, x: x[0] * x[1], group='index')
    add('x[1:]*x[:-1]', lambda A, x: x[1:] * x[:-1], group='index')
    add('x[::2]', lambda A, x: x[::2] * 2.0, group='index')
    add('x[-1]', lambda A, x: x[-1] * x[-1], group='index')
    add('x[int64(1)]*x[int64(0)]', lambda A, x: x[np.int64(1)] * x[np.int64(0)] + x[np.int64(-1)], group='index')
    add('x[None]*2', lambda A, x: x[None] * 2.0, group='index')
    add('m[0]*m[1]', lambda A, x: x[0] * x[1], shape=(2, 2), group='index')
    # advanced indexing (integer lists / arrays, boolean masks): the selection is a copy, its adjoint
    # is added back into the selected entries (repeated indices accumulate)
    add('x[[0,2]]*c', lambda A, x: x[[0, 2]] * A.c['c'], group='index', consts={'c': (2,)})
    add('x[[0,0,1]]*c + x*x', lambda A, x: A.sum(x[[0, 0, 1]] * A.c['c']) + A.sum(x * x), group='index', consts={'c': (3,)})
    add('x*x then x[array([2,0])]', lambda A, x: A.sum(x * x) * x[np.array([2, 0])], group='index')
    add('x[mask]*c', lambda A, x: x[np.array([True, False, True])] * A.c['c'], group='index', consts={'c': (2,)})
    add('m[[1,0],1:]*c', lambda A, x: x[[1, 0], 1:] * A.c['c'], shape=(2, 3), group='index', consts={'c': (2, 2)})
    add('m[[0,1],[1,0]]', lambda A, x: x[[0, 1], [1, 0]] * x[0, 0], shape=(2, 2), group='index')
    add('m[:,1]*m[0,:]', lambda A, x: x[:, 1] * x[0, :], shape=(2, 2), group='index')
    add('m[0,1]*m[1,0]', lambda A, x: x[0, 1] * x[1, 0], shape=(2, 2), group='index')
    add('buffer', _buf1, group='buffer')
    add('buffer-overwrite', _buf_overwrite, group='buffer')
    add('buffer-view-dot', _buf_view, group='buffer')
    add('copy idiom (b + 0) then overwrite', _copy_idiom, group='buffer')
    add('buffer, vector broadcast into rows', _buf_bcast_rows, group='buffer', consts={'m': (2, 3)})
    add('buffer, scalar broadcast into a slice', _buf_bcast_scalar, group='buffer')
    add('buffer, vector broadcast into columns', _buf_bcast_cols, group='buffer')
    add('buffer with constant entries', _buf_consts, group='buffer')
    add('buffer, ndarray constant into a slice', _buf_const_array, group='buffer')
    add('buffer, y[0:2] = y[1:3]', _buf_shift_down, group='buffer')
    add('buffer, y[1:3] = y[0:2]', _buf_shift_up, group='buffer')
    add('buffer, y[...] = y[::-1]', _buf_self, group='buffer')
    add('augmented assignment through a view of a buffer', _inplace_through_view, group='buffer')
    add('augmented assignment through a second name', _inplace_alias, dom='nonzero', group='buffer')
    add('**= through a view of a buffer', _ipow_through_view, group='buffer')
    add('constant node updated in place', _const_node_updated, group='buffer')
    add('constant node updated in place and returned', _const_node_returned, group='buffer', tags=['ndonly'])
    add('constant node updated through views of itself', _const_node_updated_through_view, group='buffer')
    add('augmented assignment on a 0-d accumulator', _accumulator_0d, group='buffer')
    add('x*x.flat[3]', _flat_read, shape=(2, 2), group='index')
    add('scratch ndarray constant re-used during recording', _scratch_constant, group='buffer')
    add('scratch ndarray constants of dot re-used during recording', _scratch_constant_dot, group='buffer')
    add('buffer, same-rank right-hand sides broadcast along a size-1 axis', _buf_bcast_same_rank, shape=(2, 3), group='buffer', consts={'m': (2, 3)})
    add('buffer, slots reset to constants after use', _buf_reset_to_constant, group='buffer')
    add('augmented assignment on an element of a buffer', _inplace_on_element, group='buffer', tags=['utpmonly'])
    add('buffer, item assignment through index lists and masks', _setitem_advanced, group='buffer')
    add('buffer, item assignment through an index list naming an entry twice', _setitem_repeated_index, group='buffer')
    add('index arrays separated by a slice, read and written', _index_separated, shape=(2, 3, 2), group='index')
    add('buffer, constants given as python lists and tuples', _setitem_list_rhs, group='buffer')
    add('write through real() of a real-valued node', _real_of_real_alias, group='buffer')
    add('scratch index / exponent / matrix constants re-used during recording', _scratch_index_and_exponent, dom='pos', group='buffer')
    add('item assignment through a scratch index array refilled between writes', _scratch_index_setitem, group='buffer')
    add('scratch index array inside an index tuple, refilled between uses', _scratch_index_in_tuple, shape=(3, 2), group='buffer')
    add('paused recording', _paused, group='buffer')
    add('paused recording twice', _paused_twice, group='buffer')
    add('prod(x)+sum(x*x)', lambda A, x: A.prod(x) + A.sum(x * x), group='reduce')
    add('x*prod(x)', lambda A, x: x * A.prod(x), group='reduce')
    # ---- reshape / transpose / reductions ---------------------------------------
    add('reshape', lambda A, x: A.reshape(x, (3, 2)) * 2.0, shape=(2, 3), group='shape')
    add('reshape(T)', lambda A, x: A.reshape(x.T, (6,)) * x.T[0, 1], shape=(2, 3), group='shape')
    add('transpose', lambda A, x: A.dot(x.T, x), shape=(2, 3), group='shape')
    add('T*const', lambda A, x: x.T * 2.0, shape=(2, 3), group='shape')
    add('sum', lambda A, x: A.sum(x * x), group='reduce')
    add('sum(mat)', lambda A, x: A.sum(x * x), shape=(2, 3), group='reduce')
    add('sum(axis=0)', lambda A, x: A.sum(x * x, axis=0), shape=(2, 3), group='reduce')
    add('sum(axis=(0,2))*sum(axis=(-1,))', lambda A, x: A.sum(x * x, axis=(0, 2)) * A.sum(x, axis=(-1,))[0], shape=(2, 3, 2), group='reduce')
    add('sum(axis=1)', lambda A, x: A.sum(x * x, axis=1), shape=(2, 3), group='reduce')
    add('sum(axis=-1)', lambda A, x: A.sum(x * x, axis=-1), shape=(2, 3), group='reduce')
    add('sum(square,axis=0)', lambda A, x: A.sum(x * x, axis=0), shape=(2, 2), group='reduce')
    add('sum(vec,axis=0)', lambda A, x: A.sum(x * x, axis=0), group='reduce')
    # full reductions of views that cannot be flattened without a copy
    add('sum(x.T)*sum((x*x).T)', lambda A, x: A.sum(x.T) * A.sum((x * x).T), shape=(2, 3), group='reduce')
    add('sum(w[:, :2])+sum(w[::2, :])', lambda A, x: A.sum((x * x)[:, :2]) + A.sum((x * x)[::2, :]) * x[0, 0], shape=(3, 3), group='reduce')
    add('prod(x[::-1])*sum(x[::2])', lambda A, x: A.prod(x[::-1]) * A.sum(x[::2]), group='reduce')
    add('sum(rank3,axis=1)', lambda A, x: A.sum(x * x, axis=1) * A.c['w'], shape=(2, 3, 2), group='reduce', consts={'w': (2, 2)})
    add('sum(rank3,axis=0)*sum(axis=-2)', lambda A, x: A.sum(x, axis=0) * A.sum(x * x, axis=-3), shape=(2, 3, 2), group='reduce')
    add('x.sum(axis=0) method, tall', lambda A, x: x.sum(axis=0) * A.c['w'], shape=(3, 2), group='reduce', consts={'w': (2,)})
    add('prod', lambda A, x: A.prod(x), group='reduce')
    add('trace', lambda A, x: A.trace(A.dot(x, x)), shape=(2, 2), group='reduce')
    add('diag(mat)', lambda A, x: A.diag(x) * 2.0, shape=(2, 2), group='shape')
    add('diag(vec)', lambda A, x: A.diag(x), group='shape')
    add('diag(mat 2x3)', lambda A, x: A.diag(x) * 2.0, shape=(2, 3), group='shape')
    add('diag(mat 3x2)', lambda A, x: A.diag(x) * 2.0, shape=(3, 2), group='shape')
    add('trace(tall 3x2)', lambda A, x: A.trace(x) * x[0, 0], shape=(3, 2), group='reduce')
    add('trace(wide 2x3)', lambda A, x: A.trace(x) * x[0, 0], shape=(2, 3), group='reduce')
    add('tril', lambda A, x: A.tril(x) * x, shape=(2, 2), group='shape')
    add('triu', lambda A, x: A.triu(x) * x, shape=(2, 2), group='shape')
    add('symvec', lambda A, x: A.symvec(x), shape=(2, 2), group='shape')
    add('symvec(L)', lambda A, x: A.symvec(x, 'L'), shape=(2, 2), group='shape')
    add('vecsym', lambda A, x: A.vecsym(x), group='shape')
    add('symvec(U)', lambda A, x: A.symvec(x, 'U'), shape=(2, 2), group='shape')
    add('symvec(3x3,F)*vecsym', lambda A, x: A.vecsym(A.symvec(x, 'F')) * x, shape=(3, 3), group='shape')
    add('tile', lambda A, x: A.tile(x, 2), group='shape')
    add('tile(2,2)', lambda A, x: A.tile(x, (2, 2)), group='shape')
    add('tile(int64(2))', lambda A, x: A.tile(x, np.int64(2)), group='shape')
    add('tile(2,3)', lambda A, x: A.tile(x, (2, 3)) * A.c['m'], shape=(2,), group='shape', consts={'m': (2, 6)})
    add('tile(3,1)', lambda A, x: A.tile(x, (3, 1)) * A.c['m'], shape=(2,), group='shape', consts={'m': (3, 2)})
    add('tile(mat,(2,3))', lambda A, x: A.tile(x, (2, 3)) * A.c['m'], shape=(2, 2), group='shape', consts={'m': (4, 6)})
    # ---- dot / outer of every rank combination ----------------------------------
    add('dot(mat,mat)', lambda A, x: A.dot(x, x), shape=(2, 2), group='dot')
    add('dot(mat,mat.T)', lambda A, x: A.dot(x, x.T), shape=(2, 3), group='dot')
    add('dot(mat,vec)', lambda A, x: A.dot(x, x[0]), shape=(2, 2), group='dot')
    add('dot(vec,mat)', lambda A, x: A.dot(x[0], x), shape=(2, 2), group='dot')
    add('dot(vec,vec)', lambda A, x: A.dot(x, x[::-1]), group='dot')
    add('dot(mat,carr)', lambda A, x: A.dot(x, A.c['c']), shape=(2, 2), group='dot', consts={'c': (2, 2)})
    add('dot(carr,mat)', lambda A, x: A.dot(A.c['c'], x), shape=(2, 2), group='dot', consts={'c': (2, 2)})
    add('dot(carr,vec)', lambda A, x: A.dot(A.c['c'], x), shape=(2,), group='dot', consts={'c': (2, 2)})
    add('outer', lambda A, x: A.outer(x, x[::-1]), group='dot')
    add('outer(x,carr)', lambda A, x: A.outer(x, A.c['c']), group='dot', consts={'c': (2,)})
    add('outer(carr,x)', lambda A, x: A.outer(A.c['c'], x), group='dot', consts={'c': (2,)})
    add('dot(rank3,mat)', lambda A, x: A.dot(x, x[0]), shape=(2, 2, 2), group='dot')
    add('dot(rank3,vec)', lambda A, x: A.dot(x, x[0, 0]), shape=(2, 2, 2), group='dot')
    add('dot(vec,rank3)', lambda A, x: A.dot(x[0, 0], x), shape=(2, 2, 2), group='dot')
    add('constnode*x', lambda A, x: A.const(np.array([2., 3., 5.])) * x, group='arith')
    add('constnode+x, x/constnode', lambda A, x: A.const(1.5) + x / A.const(np.array([2., 3., 5.])), group='arith')
    add('outer(x,x*x)', lambda A, x: A.outer(x, x * x), shape=(2,), group='dot')
    # ---- linear algebra (exact inv/solve; LU model) ------------------------------
    add('inv', lambda A, x: A.inv(x), shape=(2, 2), group='linalg')
    add('solve', lambda A, x: A.solve(x, x.T), shape=(2, 2), group='linalg')
    add('solve(A,carr)', lambda A, x: A.solve(x, A.c['c']), shape=(2, 2), group='linalg', consts={'c': (2, 1)})
    add('det', lambda A, x: A.det(x), shape=(2, 2), group='linalg', tags=['lu'])
    add('logdet', lambda A, x: A.logdet(x), shape=(2, 2), group='linalg', tags=['lu', 'posdet'])
    add('det3', lambda A, x: A.det(x), shape=(3, 3), group='linalg', tags=['lu', 'slow'])
    # ---- factorisations (zeroth coefficient built from its factors, see props/c08.py) ---
    # outputs are invariant under the sign convention of the factors (column j of Q and row j
    # of R flip together), so that the float build (LAPACK's convention) and the symbolic run
    # (the stub's convention) compute the same function
    def _qr(A, x):
        Q, R = A.qr(x)
        K = R.shape[0]
        y = A.sum(A.outer(Q[:, 0], R[0, :]) * A.c['c0'])
        for j in range(1, K):
            y = y + A.sum(A.outer(Q[:, j], R[j, :]) * A.c['c%d' % j])
        return y

    def _qr_full(A, x):
        Q, R = A.qr_full(x)
        N = R.shape[1]
        y = A.sum(A.outer(Q[:, 0], R[0, :]) * A.c['c0'])
        for j in range(1, N):
            y = y + A.sum(A.outer(Q[:, j], R[j, :]) * A.c['c%d' % j])
        return y

    def _chol(A, x):
        L = A.cholesky(x)
        return A.sum(L * A.c['cl'])

    def _eigh(A, x):
        l, Q = A.eigh(x)
        y = A.sum(l * A.c['cv'])
        for j in range(2):
            y = y + A.sum(A.outer(Q[:, j], Q[:, j]) * A.c['c%d' % j])
        return y

    def _eigh1(A, x):
        # the relaxed problem A Q = Q L with a block-diagonal L: sign-invariant functions of Q, and ALL
        # entries of L weighted (the entries outside the diagonal blocks are structurally zero)
        L, Q, b = A.eigh1(x)
        y = A.sum(L * A.c['cl'])
        for j in range(2):
            y = y + A.sum(A.outer(Q[:, j], Q[:, j]) * A.c['c%d' % j])
        return y

    def _eigh_vals(A, x):
        l, Q = A.eigh(x)
        return l * l

    def _eig_fun(A, x):
        # Q diag(l^2) Q^-1 (= x.x in exact arithmetic): independent of order and scaling of the eigenvectors
        l, Q = A.eig(x)
        return A.real(A.dot(A.dot(Q, A.diag(l * l)), A.inv(Q))) * A.c['c']

    def _eig_vals(A, x):
        l, Q = A.eig(x)
        return A.real(A.sum(l * l * l))

    def _svd(A, x):
        U, s, V = A.svd(x)
        y = A.sum(s * A.c['cv'])
        for j in range(2):
            y = y + A.sum(A.outer(U[:, j], V[:, j]) * A.c['c%d' % j])
        return y

    def _svd_u(A, x):
        U, s, V = A.svd(x)
        return A.sum(A.outer(U[:, 0], U[:, 0]) * A.c['c0'])

    def _svd_uv(A, x):
        U, s, V = A.svd(x)
        return A.sum(A.outer(U[:, 1], V[:, 1]) * A.c['c0'])

    def _svd_wide(A, x):
        # 2x3: the uniquely defined outputs are s, u_j v_j^T and the projector on the null space v_3 v_3^T
        U, s, V = A.svd(x)
        y = A.sum(s * A.c['cv']) + A.sum(A.outer(V[:, 2], V[:, 2]) * A.c['c2'])
        for j in range(2):
            y = y + A.sum(A.outer(U[:, j], V[:, j]) * A.c['c%d' % j])
        return y

    def _svd_wide_null(A, x):
        U, s, V = A.svd(x)
        return A.sum(A.outer(V[:, 2], V[:, 2]) * A.c['c2'])

    def _svd_wide_uv(A, x):
        U, s, V = A.svd(x)
        return A.sum(A.outer(U[:, 0], V[:, 0]) * A.c['c0'])

    def _svd_vals(A, x):
        U, s, V = A.svd(x)
        return s * s[::-1] + s

    def _lu(A, x):
        W, L, U = A.lu(x)
        return A.sum(L * A.c['cl']) + A.sum(U * A.c['cu'])

    # cholesky of a matrix that is positive definite by construction (closed-form 2x2 stub)
    add('cholesky(outer(x,x)+I)', lambda A, x: A.sum(A.cholesky(A.outer(x, x) + np.eye(2)) * A.c['cl']), shape=(2,), group='linalg',
        consts={'cl': (2, 2)})
    add('qr(2x2)', _qr, shape=(2, 2), group='factor', tags=['fac:qr'], consts={'c0': (2, 2), 'c1': (2, 2)})
    add('qr(3x2)', _qr, shape=(3, 2), group='factor', tags=['fac:qr', 'slow'], consts={'c0': (3, 2), 'c1': (3, 2)})
    add('qr(2x3)', _qr, shape=(2, 3), group='factor', tags=['fac:qr'], consts={'c0': (2, 3), 'c1': (2, 3)})
    add('qr_full(3x2)', _qr_full, shape=(3, 2), group='factor', tags=['fac:qr_full', 'slow'], consts={'c0': (3, 2), 'c1': (3, 2)})
    add('cholesky(2x2)', _chol, shape=(2, 2), group='factor', tags=['fac:cholesky', 'symmetric'], consts={'cl': (2, 2)})
    add('eigh(2x2)', _eigh, shape=(2, 2), group='factor', tags=['fac:eigh', 'symmetric'], consts={'cv': (2,), 'c0': (2, 2), 'c1': (2, 2)})
    add('eigh-values(2x2)', _eigh_vals, shape=(2, 2), group='factor', tags=['fac:eigh', 'symmetric'])
    add('eigh1(2x2)', _eigh1, shape=(2, 2), group='factor', tags=['fac:eigh', 'symmetric'], consts={'cl': (2, 2), 'c0': (2, 2), 'c1': (2, 2)})
    add('eig-function(2x2)', _eig_fun, shape=(2, 2), group='factor', tags=['fac:eig', 'Dmax2'], consts={'c': (2, 2)})
    add('eig-values(2x2)', _eig_vals, shape=(2, 2), group='factor', tags=['fac:eig', 'Dmax2'])
    add('svd(2x2)', _svd, shape=(2, 2), group='factor', tags=['fac:svd', 'Dmax2', 'D1only'], consts={'cv': (2,), 'c0': (2, 2), 'c1': (2, 2)})
    add('svd-U-projector(2x2)', _svd_u, shape=(2, 2), group='factor', tags=['fac:svd', 'Dmax2', 'heavy'], consts={'c0': (2, 2)})
    add('svd-u1v1T(2x2)', _svd_uv, shape=(2, 2), group='factor', tags=['fac:svd', 'Dmax2', 'heavy'], consts={'c0': (2, 2)})
    # (all outputs of the wide svd together with a symbolic 3x3 rotation: the solver does not finish; one output at a time does)
    add('svd-null-projector(2x3)', _svd_wide_null, shape=(2, 3), group='factor', tags=['fac:svd', 'Dmax2', 'D1only'], consts={'c2': (3, 3)})
    add('svd-u0v0T(2x3)', _svd_wide_uv, shape=(2, 3), group='factor', tags=['fac:svd', 'Dmax2', 'D1only'], consts={'c0': (2, 3)})
    add('svd(2x3), concrete V0', _svd_wide, shape=(2, 3), group='factor', tags=['fac:svd', 'Dmax2', 'D1only', 'fixedrot'], consts={'cv': (2,), 'c0': (2, 3), 'c1': (2, 3), 'c2': (3, 3)})
    add('svd-values(2x3), concrete V0', _svd_vals, shape=(2, 3), group='factor', tags=['fac:svd', 'Dmax2', 'fixedrot'])
    add('svd-values(2x2)', _svd_vals, shape=(2, 2), group='factor', tags=['fac:svd', 'Dmax2'])
    add('lu(3x3), base points whose pivot order is a 3-cycle', _lu, shape=(3, 3), group='factor', tags=['lu', 'pivot-cycle', 'Dmax2'], consts={'cl': (3, 3), 'cu': (3, 3)})
    add('lu(2x2)', _lu, shape=(2, 2), group='factor', tags=['lu'], consts={'cl': (2, 2), 'cu': (2, 2)})
    # ---- fft (complex intermediates, real inputs and outputs) ---------------------------
    add('real(fft(x,axis=0))', lambda A, x: A.real(A.fft.fft(x, axis=0)), shape=(2, 2), group='fft')
    add('imag(fft(x,axis=0))', lambda A, x: A.imag(A.fft.fft(x, axis=0)), shape=(4, 2), group='fft')
    add('real(fft(x))', lambda A, x: A.real(A.fft.fft(x)) * x, shape=(4,), group='fft')
    add('real(ifft(fft(x,axis=0)*fft(x,axis=0),axis=0))', lambda A, x: A.real(A.fft.ifft(A.fft.fft(x, axis=0) * A.fft.fft(x, axis=0), axis=0)), shape=(2, 2), group='fft')
    add('real(fft(x,axis=-1))+imag', lambda A, x: A.real(A.fft.fft(x, axis=-1)) + A.imag(A.fft.fft(x, axis=-1)), shape=(2, 2), group='fft')
    # real / imag parts consumed more than once, of complex and of real operands
    add('imag(z)*imag(z)', lambda A, x: (lambda z: A.imag(z) * A.imag(z))(A.fft.fft(x)), shape=(4,), group='fft')
    add('imag(z)+imag(z*z)', lambda A, x: (lambda z: A.imag(z) + A.imag(z * z))(A.fft.fft(x)), shape=(4,), group='fft')
    add('imag(w)*real(w*w)', lambda A, x: (lambda w: A.imag(w) * A.real(w * w))(x * (1 + 2j)), group='fft')
    add('real(x)*x', lambda A, x: A.real(x) * x + x * x * x, group='fft')
    # one real and one complex operand of dot / outer (matrix.vector, vector.matrix)
    add('real(dot(c, w))', lambda A, x: A.real(A.dot(A.c['c'], x * (1 + 2j))) * x[:2], group='fft', consts={'c': (2, 3)})
    add('imag(dot(w, c))', lambda A, x: A.imag(A.dot(x * (2 - 1j), A.c['c'])) + A.real(A.dot(x, A.c['c'] * (1 + 1j))), group='fft', consts={'c': (3, 2)})
    add('real(dot(x, w))', lambda A, x: A.real(A.dot(x, x[0] * (1 + 2j) + 1j)) * A.imag(A.dot(x[1] * (2 - 1j), x.T)), shape=(2, 3), group='fft')
    add('imag(outer(x, w))', lambda A, x: A.imag(A.outer(x, x * (1 + 2j) + 1j)), group='fft')
    add('real(conj(w)*w*w)', lambda A, x: (lambda w: A.real(A.conjugate(w) * (w * w)))(x * (1 + 2j)), group='fft')
    add('imag(conj(fft(x))*x)', lambda A, x: A.imag(A.conjugate(A.fft.fft(x)) * x), shape=(4,), group='fft')
    add('real(fft(x,n=2))', lambda A, x: A.real(A.fft.fft(x, n=2)) * x[:2], shape=(4,), group='fft')
    add('imag(fft(x,n=4))', lambda A, x: A.imag(A.fft.fft(x, n=4)), shape=(2,), group='fft')
    add('real(ifft(x))', lambda A, x: A.real(A.fft.ifft(x)) * x, shape=(4,), group='fft')
    add('imag(ifft(x,n=2))', lambda A, x: A.imag(A.fft.ifft(x, n=2)), shape=(4,), group='fft')
    # complex intermediate combined with the real input on either side of - and /
    add('real(fft(x)-x)', lambda A, x: A.real(A.fft.fft(x) - x), shape=(4,), group='fft')
    add('real(x-fft(x))', lambda A, x: A.real(x - A.fft.fft(x)), shape=(4,), group='fft')
    add('imag(fft(x)/x)', lambda A, x: A.imag(A.fft.fft(x) / x), shape=(4,), dom='nonzero', group='fft')
    add('real(fft(x)*x)+imag(x*fft(x))', lambda A, x: A.real(A.fft.fft(x) * x) + A.imag(x * A.fft.fft(x)), shape=(4,), group='fft')
    add('real(fft(x)+x)', lambda A, x: A.real(A.fft.fft(x) + x) * x, shape=(4,), group='fft')
    # ---- compositions --------------------------------------------------------------
    add('real(inv(x + 1j*c))', lambda A, x: A.real(A.inv(x + 1j * A.c['c'])) * A.c['w'], shape=(2, 2), group='comp', tags=['D2only'], consts={'c': (2, 2), 'w': (2, 2)})
    add('imag(inv(x + 1j*c))*x', lambda A, x: A.imag(A.inv(x + 1j * A.c['c'])) * x, shape=(2, 2), group='comp', tags=['D2only'], consts={'c': (2, 2)})
    add('real(solve(x + 1j*c, x.T))', lambda A, x: A.real(A.solve(x + 1j * A.c['c'], x.T)), shape=(2, 2), group='comp', tags=['D2only'], consts={'c': (2, 2)})
    add('imag(solve(x, x.T + 1j*c))', lambda A, x: A.imag(A.solve(x, x.T + 1j * A.c['c'])), shape=(2, 2), group='comp', tags=['D2only'], consts={'c': (2, 2)})
    add('sum(x*exp(x)/(1+x0*x1)+sin(x)*x[::-1])', lambda A, x: A.sum(x * A.exp(x) / (1. + x[0] * x[1]) + A.sin(x) * x[::-1]), group='comp', dom='den01')
    add('exp(dot)', lambda A, x: A.exp(A.dot(x, x)) * x, group='comp')
    add('log(sum sq)', lambda A, x: A.log(A.sum(x * x) + 1.0), group='comp')
    add('tan(x)*x', lambda A, x: A.tan(x) * x, group='comp', tags=['halfangle'])
    add('sin(x)*x', lambda A, x: A.sin(x) * x, group='comp')
    add('sqrt(x)*x[0]', lambda A, x: A.sqrt(x) * x[0], dom='pos', group='comp')
    add('inv*det', lambda A, x: A.inv(x) * A.trace(x), shape=(2, 2), group='comp')
    return P if ndonly else [p for p in P if 'ndonly' not in p.tags]


def by_name():
    return {p.name: p for p in catalogue(ndonly=True)}


def fanout(prog, where):
    """the same program with its input used once more by operations recorded AFTER ('post')
    or BEFORE ('pre') the program's own nodes: the adjoint of x is the sum over all uses"""
    f = prog.f
    if where == 'post':
        def g(A, x):
            y = f(A, x)
            return y * A.sum(A.sin(x) * x)
    else:
        def g(A, x):
            s = A.sum(A.sin(x) * x)
            return f(A, x) * s
    return Prog('%s-use:%s' % (where, prog.name), g, shape=prog.shape, dom=prog.dom, group=prog.group,
                tags=prog.tags, consts=prog.consts)


# ---------------------------------------------------------------------------
# seeded random straight-line programs R^3 -> R^M

_UN = ['exp', 'sin', 'cos', 'square', 'negative']
_BIN = ['add', 'sub', 'mul']


def random_program(seed, length):
    rng = random.Random(seed)
    steps = []
    ndiv = 0
    for k in range(length):
        kind = rng.choice(['un', 'bin', 'bin', 'idx', 'const', 'div', 'bcast', 'sum'])
        if kind == 'div':
            ndiv += 1
            if ndiv > 1:
                kind = 'bin'
        a = rng.randrange(k + 1)
        b = rng.randrange(k + 1)
        if kind == 'un':
            steps.append(('un', rng.choice(_UN), a))
        elif kind == 'bin':
            steps.append(('bin', rng.choice(_BIN), a, b))
        elif kind == 'idx':
            steps.append(('idx', rng.choice(['rev', 'roll']), a))
        elif kind == 'const':
            steps.append(('const', rng.choice(['lmul', 'radd', 'rsub']), a, rng.choice([2, 3, Fraction(1, 2), Fraction(3, 2)])))
        elif kind == 'div':
            steps.append(('div', a, b))
        elif kind == 'bcast':
            steps.append(('bcast', a, b, rng.randrange(3)))
        else:
            steps.append(('sumscale', a, b))
    return steps


def run_steps(A, x, steps):
    vals = [x]
    for st in steps:
        if st[0] == 'un':
            v = getattr(A, st[1])(vals[st[2]])
        elif st[0] == 'bin':
            a, b = vals[st[2]], vals[st[3]]
            v = a + b if st[1] == 'add' else (a - b if st[1] == 'sub' else a * b)
        elif st[0] == 'idx':
            a = vals[st[2]]
            v = a[::-1] if st[1] == 'rev' else a[::-1] * 1.0
        elif st[0] == 'const':
            a = vals[st[2]]
            c = float(st[3])
            v = c * a if st[1] == 'lmul' else (a + c if st[1] == 'radd' else c - a)
        elif st[0] == 'div':
            v = vals[st[1]] / (1.0 + vals[st[2]] * vals[st[2]])
        elif st[0] == 'bcast':
            v = vals[st[1]] * vals[st[2]][st[3]]
        else:
            v = vals[st[1]] * A.sum(vals[st[2]])
        vals.append(v)
    return vals[-1]


def random_prog(seed, length):
    steps = random_program(seed, length)
    return Prog('random(seed=%d,len=%d)' % (seed, length), lambda A, x: run_steps(A, x, steps), group='random')
