"""Exploration contexts, fraction normal form, SMT encoding and decision.

A *harness* is a function h(ctx) written generically over the number type.
  ctx.mode == 'sym'   : ctx.var() hands out Sym variables, the real algopy code
                        runs on object arrays, ctx.eq() queues obligations that
                        z3 decides for all values (per explored path)
  ctx.mode == 'float' : ctx.var() hands out floats from an assignment, the
                        unpatched algopy runs on float arrays, ctx.eq() compares
                        numerically.  Used for replay of counterexamples and for
                        translation validation of the symbolic layer.
"""
from fractions import Fraction
import math
import time
import random
import subprocess
import tempfile
import os
import sys

import numpy as np
import z3

from . import sym as S
from .sym import Sym, SymC, BoolSym


class Infeasible(BaseException):
    """current path condition is unsatisfiable (pruned)"""


class Inconclusive(Exception):
    """solver unknown / budget exhausted: never a pass"""


class SkipPoint(BaseException):
    """float mode: the sampled point violates an assumption"""


class HarnessError(BaseException):
    """a bug in the checker itself (never reported as a property violation)"""


# ---------------------------------------------------------------------------
# fraction normal form  num / prod(den_k ^ e_k), all parts division free

class NF(object):
    def __init__(self):
        self.memo = {}

    @staticmethod
    def split(node):
        """node (division free) -> (Fraction coefficient, {id: (node, exp)})"""
        coef = Fraction(1)
        fac = {}
        stack = [node]
        while stack:
            n = stack.pop()
            if n.op == 'const':
                coef *= n.a[0]
            elif n.op == 'mul':
                stack.append(n.a[0])
                stack.append(n.a[1])
            else:
                if n.id in fac:
                    fac[n.id] = (n, fac[n.id][1] + 1)
                else:
                    fac[n.id] = (n, 1)
        return coef, fac

    @staticmethod
    def prod(fac):
        p = S.const(1)
        for k in sorted(fac):
            n, e = fac[k]
            for _ in range(e):
                p = p * n
        return p

    @staticmethod
    def missing(L, d):
        """factors of L not yet in d"""
        out = {}
        for k, (n, e) in L.items():
            have = d[k][1] if k in d else 0
            if e > have:
                out[k] = (n, e - have)
        return out

    @staticmethod
    def lcm(d1, d2):
        L = dict(d1)
        for k, (n, e) in d2.items():
            if k not in L or L[k][1] < e:
                L[k] = (n, e)
        return L

    def of(self, node):
        memo = self.memo
        if node.id in memo:
            return memo[node.id]
        save = S.current_ctx()
        S.set_ctx(None)
        try:
            for n in S.cone([node]):
                if n.id in memo:
                    continue
                op = n.op
                if op in ('var', 'const', 'app'):
                    memo[n.id] = (n, {})
                elif op == 'add':
                    an, ad = memo[n.a[0].id]
                    bn, bd = memo[n.a[1].id]
                    if not ad and not bd:
                        memo[n.id] = (n, {})
                    else:
                        L = self.lcm(ad, bd)
                        num = an * self.prod(self.missing(L, ad)) + bn * self.prod(self.missing(L, bd))
                        memo[n.id] = (num, L)
                elif op == 'mul':
                    an, ad = memo[n.a[0].id]
                    bn, bd = memo[n.a[1].id]
                    if not ad and not bd:
                        memo[n.id] = (n, {})
                    else:
                        d = dict(ad)
                        for k, (m, e) in bd.items():
                            d[k] = (m, e + (d[k][1] if k in d else 0))
                        memo[n.id] = (an * bn, d)
                elif op == 'div':
                    an, ad = memo[n.a[0].id]
                    bn, bd = memo[n.a[1].id]
                    coef, fac = self.split(bn)
                    num = an * self.prod(bd)
                    if coef != 1:
                        num = num * S.const(1 / coef)
                    d = dict(ad)
                    for k, (m, e) in fac.items():
                        d[k] = (m, e + (d[k][1] if k in d else 0))
                    # cancel factors common to the new numerator's bd part and d
                    memo[n.id] = (num, d)
                else:
                    raise S.SymError('unknown op ' + op)
        finally:
            S.set_ctx(save)
        return memo[node.id]

    def cross(self, lhs, rhs):
        """division-free (l, r, denominators) with lhs == rhs  <=>  l == r"""
        ln, ld = self.of(lhs)
        rn, rd = self.of(rhs)
        save = S.current_ctx()
        S.set_ctx(None)
        try:
            L = self.lcm(ld, rd)
            l = ln * self.prod(self.missing(L, ld))
            r = rn * self.prod(self.missing(L, rd))
        finally:
            S.set_ctx(save)
        return l, r, L


# ---------------------------------------------------------------------------
# SMT-LIB2 generation (one script per query; DAG kept via define-fun)

def _rat(fr):
    if fr.denominator == 1:
        return str(fr.numerator) if fr >= 0 else '(- %d)' % (-fr.numerator)
    if fr >= 0:
        return '(/ %d %d)' % (fr.numerator, fr.denominator)
    return '(- (/ %d %d))' % (-fr.numerator, fr.denominator)


class Smt(object):
    def __init__(self, nf):
        self.nf = nf
        self.lines = []
        self.names = {}
        self.decl = {}      # smt name -> Sym (var or atom)

    def term(self, node):
        nm = self.names.get(node.id)
        if nm is not None:
            return nm
        for n in S.cone([node]):
            if n.id in self.names:
                continue
            op = n.op
            if op == 'const':
                self.names[n.id] = _rat(n.a[0])
                continue
            if op == 'var':
                nm = 'v_' + ''.join(ch if ch.isalnum() or ch == '_' else '_' for ch in n.a[0]) + '_%d' % n.id
                self.lines.append('(declare-const %s Real)' % nm)
                self.decl[nm] = n
            elif op == 'app':
                nm = 'f_%s_%d' % (n.a[0], n.id)
                self.lines.append('(declare-const %s Real)' % nm)
                self.decl[nm] = n
            else:
                nm = 'n%d' % n.id
                o = {'add': '+', 'mul': '*', 'div': '/'}[op]
                self.lines.append('(define-fun %s () Real (%s %s %s))' % (
                    nm, o, self.names[n.a[0].id], self.names[n.a[1].id]))
            self.names[n.id] = nm
        return self.names[node.id]

    def boolean(self, b):
        if b is True:
            return 'true'
        if b is False:
            return 'false'
        if b.op in ('<', '<=', '==', '!='):
            ln, ld = self.nf.of(b.l)
            rn, rd = self.nf.of(b.r)
            save = S.current_ctx()
            S.set_ctx(None)
            try:
                if b.op in ('==', '!='):
                    L = NF.lcm(ld, rd)
                    l = ln * NF.prod(NF.missing(L, ld))
                    r = rn * NF.prod(NF.missing(L, rd))
                else:
                    # a/A < b/B  <=>  a*A*B^2 < b*B*A^2   (A, B != 0)
                    A = NF.prod(ld)
                    B = NF.prod(rd)
                    l = ln * A * B * B if (ld or rd) else ln
                    r = rn * B * A * A if (ld or rd) else rn
            finally:
                S.set_ctx(save)
            lt, rt = self.term(l), self.term(r)
            if b.op == '<':
                return '(< %s %s)' % (lt, rt)
            if b.op == '<=':
                return '(<= %s %s)' % (lt, rt)
            if b.op == '==':
                return '(= %s %s)' % (lt, rt)
            return '(not (= %s %s))' % (lt, rt)
        if b.op == 'not':
            return '(not %s)' % self.boolean(b.l)
        if b.op == 'and':
            return '(and %s %s)' % (self.boolean(b.l), self.boolean(b.r))
        if b.op == 'or':
            return '(or %s %s)' % (self.boolean(b.l), self.boolean(b.r))
        raise S.SymError(b.op)

    def script(self, asserts):
        return '\n'.join(self.lines + ['(assert %s)' % a for a in asserts])


SOLVER_STATS = {'queries': 0, 'seconds': 0.0, 'unsat': 0, 'sat': 0, 'unknown': 0}


def _machine_busy():
    try:
        return os.getloadavg()[0] > 1.5 * (os.cpu_count() or 1)
    except (OSError, AttributeError):
        return False


def z3_check(script, timeout_ms=20000, want_model=False):
    """returns ('unsat'|'sat'|'unknown', model-or-None, seconds)"""
    t0 = time.time()
    # the limit is wall-clock time: a query that runs into it gets one more attempt with five times
    # the budget, so that a machine that is busy with other work does not turn a decided query into
    # an inconclusive one (a query that is still undecided then stays `unknown`, never a pass)
    for budget in (int(timeout_ms), 5 * int(timeout_ms), 15 * int(timeout_ms)):
        if budget == 15 * int(timeout_ms) and not _machine_busy():
            break       # (a third attempt only while the machine is overloaded by other work)
        s = z3.SolverFor('QF_NRA')
        s.set('timeout', budget)
        try:
            s.from_string(script)
            r = str(s.check())
        except z3.Z3Exception as e:
            r = 'unknown'
            break
        if r != 'unknown':
            break
        try:
            why = s.reason_unknown()
        except Exception:
            why = ''
        if 'timeout' not in why and 'cancel' not in why:
            break
        SOLVER_STATS['retried_after_timeout'] = SOLVER_STATS.get('retried_after_timeout', 0) + (1 if budget == int(timeout_ms) else 0)
    dt = time.time() - t0
    SOLVER_STATS['queries'] += 1
    SOLVER_STATS['seconds'] += dt
    SOLVER_STATS[r] = SOLVER_STATS.get(r, 0) + 1
    model = None
    if r == 'sat' and want_model:
        m = s.model()
        model = {}
        for d in m.decls():
            v = m[d]
            try:
                if z3.is_rational_value(v):
                    model[d.name()] = Fraction(v.numerator_as_long(), v.denominator_as_long())
                elif z3.is_algebraic_value(v):
                    a = v.approx(30)
                    model[d.name()] = Fraction(a.numerator_as_long(), a.denominator_as_long())
            except Exception:
                pass
    return r, model, dt


def external_check(script, solver, timeout_s=60):
    """cross-check with /usr/bin/z3 (4.8.12) or cvc5 on the dumped script"""
    txt = '(set-logic QF_NRA)\n' + script + '\n(check-sat)\n'
    fd, path = tempfile.mkstemp(suffix='.smt2', prefix='symx_')
    os.write(fd, txt.encode())
    os.close(fd)
    try:
        if solver == 'z3old':
            cmd = ['/usr/bin/z3', '-T:%d' % timeout_s, path]
        else:
            cmd = ['cvc5', '--tlimit=%d' % (timeout_s * 1000), path]
        try:
            out = subprocess.run(cmd, capture_output=True, text=True, timeout=timeout_s + 10).stdout
        except subprocess.TimeoutExpired:
            return 'timeout'
    finally:
        os.unlink(path)
    if '(error' in out:
        return 'error'
    for tok in ('unsat', 'sat', 'unknown', 'timeout'):
        if out.strip().startswith(tok):
            return tok
    return 'unknown'


# ---------------------------------------------------------------------------
# numeric evaluation of the DAG (floats; atoms by their true functions)

def _atom_eval(name, params, args):
    import scipy.special as sp
    x = args[0]
    if name == 'exp':
        return math.exp(x)
    if name == 'log':
        return math.log(x)
    if name == 'sqrt':
        return math.sqrt(x)
    if name in ('sin', 'cos', 'tan', 'sinh', 'cosh', 'tanh', 'log1p', 'expm1',
                'log2', 'log10'):
        return getattr(math, name)(x)
    if name == 'exp2':
        return 2.0 ** x
    if name == 'arcsin':
        return math.asin(x)
    if name == 'arccos':
        return math.acos(x)
    if name == 'arctan':
        return math.atan(x)
    if name == 'arcsinh':
        return math.asinh(x)
    if name == 'arccosh':
        return math.acosh(x)
    if name == 'arctanh':
        return math.atanh(x)
    if name == 'pow':
        return x ** args[1]
    if name == 'clog_re':
        return math.log(math.hypot(x, args[1]))
    if name == 'clog_im':
        return math.atan2(args[1], x)
    if name == 'erf':
        return float(sp.erf(x))
    if name == 'erfi':
        return float(sp.erfi(x))
    if name == 'dawsn':
        return float(sp.dawsn(x))
    if name == 'logit':
        return float(sp.logit(x))
    if name == 'expit':
        return float(sp.expit(x))
    if name == 'gammaln':
        return float(sp.gammaln(x))
    if name == 'psi':
        return float(sp.psi(x))
    if name == 'polygamma':
        return float(sp.polygamma(int(params[0]), x))
    if name == 'hyperu':
        return float(sp.hyperu(float(params[0]), float(params[1]), x))
    raise KeyError(name)


def evaluate(nodes, env, exact=False, atom_env=None):
    """evaluate Sym nodes at env (var name -> number).  exact=True: Fractions,
    atoms taken from atom_env (node id -> Fraction) (used for self-checks)."""
    val = {}
    for n in S.cone(list(nodes)):
        op = n.op
        if op == 'const':
            val[n.id] = n.a[0] if exact else float(n.a[0])
        elif op == 'var':
            nm = n.a[0]
            if nm.startswith('@'):
                v = S._KAPPA[nm[1:]]
                val[n.id] = Fraction(v) if exact else v
            else:
                val[n.id] = Fraction(env[nm]) if exact == 'hybrid' else env[nm]
        elif op == 'add':
            val[n.id] = val[n.a[0].id] + val[n.a[1].id]
        elif op == 'mul':
            val[n.id] = val[n.a[0].id] * val[n.a[1].id]
        elif op == 'div':
            val[n.id] = val[n.a[0].id] / val[n.a[1].id]
        elif op == 'app':
            if exact == 'hybrid':
                # rational arithmetic (no overflow at extreme magnitudes), atoms through floats
                val[n.id] = Fraction(_atom_eval(n.a[0], n.a[1], [float(val[t.id]) for t in n.a[2:]]))
            elif exact:
                val[n.id] = atom_env[n.id]
            else:
                val[n.id] = _atom_eval(n.a[0], n.a[1], [val[t.id] for t in n.a[2:]])
    return val


# ---------------------------------------------------------------------------

_SKIP_FRAMES = ('/symx/sym.py', '/symx/npx.py', '/symx/engine.py')
_CODE_PREFIX = tuple({os.path.join(f(os.environ.get('ALGOPY_REPO', '/repo')), 'algopy') + os.sep
                      for f in (os.path.realpath, os.path.abspath, str)})


class Ctx(object):
    def __init__(self, mode='sym', prefix=(), assignment=None, opts=None):
        self.mode = mode
        self.prefix = list(prefix)
        self.assignment = assignment if assignment is not None else {}
        self.opts = opts or {}
        self.assumptions = []       # BoolSym preconditions
        self.path = []              # BoolSym literals taken
        self.decisions = []         # bools taken (for re-execution)
        self.forks = []             # alternative prefixes discovered
        self.divisors = {}
        self.divisor_kind = {}      # id -> 'code' | 'spec' (only tracked for the definedness check)
        self.positive_kind = {}
        self.track_div_kind = bool(self.opts.get('definedness')) or os.environ.get('SYMX_DEFINEDNESS', '1') == '1'
        self.spec_depth = 0         # >0 while a numpy.linalg stand-in (exact inverse/solve/det) runs
        self.positives = {}
        self.obligations = []       # (label, lhs, rhs)
        self.checks = []            # (label, BoolSym)  must hold on this path
        self.raw_obligations = []   # (label, smt script, on_sat)
        self.facts = []             # (label, bool) concrete structural assertions
        self.outs = []              # (label, value) for translation validation
        self.atomdefs = {}
        self.atomdefs2 = {}
        self.atomdefs_c = {}
        self.vars = {}
        self.var_order = []
        self.notes = []
        self.nf = NF()
        self.timeout_ms = self.opts.get('timeout_ms', 20000)
        self.float_failures = []
        self._lit_cache = {}
        self._label_count = {}
        self.fps = []
        self.derived = []           # (var name, function(env) -> value) for validation points

    # -- inputs --------------------------------------------------------------
    def var(self, name, lo=None, hi=None, pos=False, nonzero=False):
        if self.mode == 'float':
            if name not in self.assignment:
                raise HarnessError('no value for variable %s' % name)
            return float(self.assignment[name])
        v = S.var(name)
        if name not in self.vars:
            self.vars[name] = v
            self.var_order.append(name)
            if pos:
                self.assume(v > 0)
            if nonzero:
                self.assume(v != 0)
            if lo is not None:
                self.assume(v > lo)
            if hi is not None:
                self.assume(v < hi)
        return v

    def array(self, name, shape, **kw):
        """ndarray of fresh variables name[i,j,..] (object array in sym mode)"""
        shape = tuple(shape)
        out = np.empty(shape, dtype=object if self.mode == 'sym' else float)
        for idx in np.ndindex(*shape):
            out[idx] = self.var('%s[%s]' % (name, ','.join(map(str, idx))), **kw)
        return out

    def assume(self, b):
        if b is True or isinstance(b, (bool, np.bool_)) and b:
            return
        if self.mode == 'float':
            if not b:
                raise SkipPoint()
            return
        if b is False or (isinstance(b, (bool, np.bool_)) and not b):
            raise Infeasible()
        self.assumptions.append(b)

    def derive(self, name, fn):
        """validation points: variable `name` is a function of other variables"""
        self.derived.append((name, fn))

    def define_atom(self, name, arg, value):
        """declare fname(arg) := value (re-parametrisation, DESIGN 2.5(4))"""
        if self.mode == 'sym':
            self.atomdefs[(name, arg.id)] = value

    def define_atom2(self, name, a, b, value):
        if self.mode == 'sym':
            self.atomdefs2[(name, a.id, b.id)] = value

    def define_atom_c(self, name, arg, value):
        if self.mode == 'sym':
            self.atomdefs_c[(name, arg.re.id, arg.im.id)] = value

    def cvar(self, name):
        re, im = self.var(name + '.re'), self.var(name + '.im')
        if self.mode == 'sym':
            return SymC(re, im)
        return complex(re, im)

    def atom_value(self, name, arg):
        return self.atomdefs.get((name, arg.id))

    def atom_value2(self, name, a, b):
        return self.atomdefs2.get((name, a.id, b.id))

    # -- definedness -----------------------------------------------------------
    def _who(self):
        """'code' if the operation is performed by a line of the implementation under analysis;
        'spec' for oracle tables, the DAG differentiator, factorisation contract stubs and the
        exact inverse/solve standing for numpy.linalg (their divisors delimit the domain on which
        the property is stated)"""
        if self.spec_depth:
            return 'spec'
        f = sys._getframe(2)
        while f is not None:
            fn = f.f_code.co_filename
            if fn.endswith(_SKIP_FRAMES):
                f = f.f_back
                continue
            return 'code' if fn.startswith(_CODE_PREFIX) else 'spec'
        return 'spec'

    def note_divisor(self, d):
        if d.id not in self.divisors:
            self.divisors[d.id] = d
        if self.track_div_kind and self.divisor_kind.get(d.id) != 'spec':
            self.divisor_kind[d.id] = self._who()

    def note_positive(self, d, why=''):
        if d.op == 'const':
            return
        if d.id not in self.positives:
            self.positives[d.id] = d
        if self.track_div_kind and self.positive_kind.get(d.id) != 'spec':
            self.positive_kind[d.id] = self._who()

    # -- obligations -----------------------------------------------------------
    def eq(self, lhs, rhs, label=''):
        """obligation lhs == rhs (scalars or arrays)"""
        k = self._label_count.get(label, 0)
        self._label_count[label] = k + 1
        if k:
            label = '%s#%d' % (label, k)
        if self.mode == 'float':
            a = np.asarray(lhs, dtype=complex)
            b = np.asarray(rhs, dtype=complex)
            if a.shape != b.shape:
                self.float_failures.append((label, 'shape %s vs %s' % (a.shape, b.shape)))
                return
            fv = getattr(self, 'float_vals', None)
            if fv is not None:
                iscomplex = np.iscomplexobj(np.asarray(lhs)) or np.iscomplexobj(np.asarray(rhs))
                for idx in np.ndindex(*a.shape):
                    lab = '%s%s' % (label, list(idx) if idx else '')
                    if iscomplex:
                        fv[lab + '.re'] = float(a[idx].real)
                        fv[lab + '.im'] = float(a[idx].imag)
                    else:
                        fv[lab] = float(a[idx].real)
            fin = np.abs(b[np.isfinite(b)]) if b.size else np.array([])
            scale = max(1.0, float(np.max(fin)) if fin.size else 1.0)
            tol = self.opts.get('float_tol', 1e-7)
            with np.errstate(invalid='ignore'):
                bad = ~(np.abs(a - b) <= tol * scale)
                rel = self.opts.get('float_rel')
                if rel:
                    # elementwise relative comparison (values of tiny magnitude)
                    bad = bad | ~(np.abs(a - b) <= rel * np.abs(b) + 1e-300)
                # a non-finite ORACLE value (overflow in the reference) decides nothing
                bad = bad & np.isfinite(b)
            if np.any(bad):
                idx = tuple(int(i) for i in np.argwhere(bad)[0])
                self.float_failures.append((label, 'index %s: got %r expected %r' % (
                    idx, complex(a[idx]), complex(b[idx]))))
            return
        la = np.asarray(lhs, dtype=object)
        ra = np.asarray(rhs, dtype=object)
        if la.shape != ra.shape:
            self.facts.append(('%s: shape %s == %s' % (label, la.shape, ra.shape), False))
            return
        for idx in np.ndindex(*la.shape):
            le, re_ = la[idx], ra[idx]
            while isinstance(le, np.ndarray) and le.ndim == 0:
                le = le.item()
            while isinstance(re_, np.ndarray) and re_.ndim == 0:
                re_ = re_.item()
            l, r = S.lift(le), S.lift(re_)
            if l is None or r is None:
                raise S.SymError('non-numeric value in obligation %s%s: %r / %r' % (label, idx, la[idx], ra[idx]))
            lab = '%s%s' % (label, list(idx) if idx else '')
            if isinstance(l, SymC) or isinstance(r, SymC):
                l = S.SymC._lift(l)
                r = S.SymC._lift(r)
                self.obligations.append((lab + '.re', l.re, r.re))
                self.obligations.append((lab + '.im', l.im, r.im))
            else:
                self.obligations.append((lab, l, r))

    def holds(self, b, label=''):
        """obligation: boolean b is true on this path"""
        if self.mode == 'float':
            if not b:
                self.float_failures.append((label, 'condition false'))
            return
        if isinstance(b, (bool, np.bool_)):
            self.facts.append((label, bool(b)))
        else:
            self.checks.append((label, b))

    def smt_obligation(self, label, script, on_sat=None):
        """a hand-encoded query (e.g. over integers) that must be unsat; on_sat(model)
        -> True if the model is a confirmed counterexample on the real code"""
        if self.mode == 'sym':
            self.raw_obligations.append((label, script, on_sat))

    def fact(self, cond, label=''):
        """concrete (non-solver) assertion, e.g. on shapes and graph structure"""
        if self.mode == 'float':
            if not cond:
                self.float_failures.append((label, 'fact false'))
            return
        self.facts.append((label, bool(cond)))

    def out(self, label, value):
        self.outs.append((label, value))

    def fp(self, label, value):
        """structure fingerprint: must be identical in the symbolic and the float run"""
        self.fps.append((label, value))

    def note(self, s):
        self.notes.append(s)

    # -- branching ---------------------------------------------------------------
    def _base_asserts(self, smt, divisors=True):
        out = []
        for b in self.assumptions:
            out.append(smt.boolean(b))
        for b in self.path:
            out.append(smt.boolean(b))
        for d in (self.divisors.values() if divisors else ()):
            n, dd = self.nf.of(d)
            out.append('(not (= %s 0))' % smt.term(n))
        for d in self.positives.values():
            if divisors or self.positive_kind.get(d.id) != 'code':
                out.append(smt.boolean(d > 0))
        # bounds of the irrational constants
        for name, s in list(S._KAPPA_SYMS.items()):
            lo, hi = S._KAPPA_BOUNDS[name]
            t = smt.term(s)
            out.append('(< %s %s)' % (_rat(lo), t))
            out.append('(< %s %s)' % (t, _rat(hi)))
        if 'sqrt2' in S._KAPPA_SYMS:
            save = S.current_ctx()
            S.set_ctx(None)
            p2 = S._KAPPA_SYMS['sqrt2'] * S._KAPPA_SYMS['sqrt2']
            S.set_ctx(save)
            out.append('(= %s 2)' % smt.term(p2))
        if 'pi' in S._KAPPA_SYMS and 'rsqrtpi' in S._KAPPA_SYMS:
            save = S.current_ctx()
            S.set_ctx(None)
            p = S._KAPPA_SYMS['rsqrtpi'] * S._KAPPA_SYMS['rsqrtpi'] * S._KAPPA_SYMS['pi']
            S.set_ctx(save)
            out.append('(= %s 1)' % smt.term(p))
        return out

    def feasible(self, lit):
        smt = Smt(self.nf)
        asserts = self._base_asserts(smt)
        asserts.append(smt.boolean(lit))
        r, _, _ = z3_check(smt.script(asserts), self.timeout_ms)
        return r

    def decide(self, b):
        if self.mode == 'float':
            raise S.SymError('BoolSym in float mode')
        key = b.key()
        if key in self._lit_cache:
            return self._lit_cache[key]
        i = len(self.decisions)
        if i < len(self.prefix):
            take, forced = self.prefix[i]
        else:
            rt = self.feasible(b)
            rf = self.feasible(b.negate())
            if rt == 'unknown' or rf == 'unknown':
                raise Inconclusive('feasibility of branch %r unknown' % (b,))
            if rt == 'sat' and rf == 'sat':
                take, forced = True, False
                self.forks.append(self.decisions + [(False, False)])
            elif rt == 'sat':
                take, forced = True, True
            elif rf == 'sat':
                take, forced = False, True
            else:
                raise Infeasible()
        self.decisions.append((take, forced))
        if not forced:
            self.path.append(b if take else b.negate())
        self._lit_cache[key] = take
        self._lit_cache[b.negate().key()] = not take
        return take
