"""Forward-mode symbolic differentiation of the term DAG (independent of algopy):
d(node)/d(direction) where `seed` maps variable names to their tangents."""
from fractions import Fraction

from . import sym as S
from .sym import Sym


def _c(v):
    return S.const(Fraction(v))


def atom_derivative(n):
    """f'(arg) for the atom n = f(arg; params) as a Sym (None if unknown)"""
    name, params = n.a[0], n.a[1]
    args = n.a[2:]
    x = args[0]
    if name == 'exp':
        return n
    if name == 'expm1':
        return x.exp()
    if name == 'log':
        return _c(1) / x
    if name == 'log1p':
        return _c(1) / (1 + x)
    if name == 'log2':
        return _c(1) / (x * S.kappa('ln2'))
    if name == 'log10':
        return _c(1) / (x * S.kappa('ln10'))
    if name == 'exp2':
        return n * S.kappa('ln2')
    if name == 'sqrt':
        return _c(Fraction(1, 2)) / n
    if name == 'sin':
        return x.cos()
    if name == 'cos':
        return -x.sin()
    if name == 'tan':
        return 1 + n * n
    if name == 'sinh':
        return x.cosh()
    if name == 'cosh':
        return x.sinh()
    if name == 'tanh':
        return 1 - n * n
    if name == 'arcsin':
        return _c(1) / (1 - x * x).sqrt()
    if name == 'arccos':
        return _c(-1) / (1 - x * x).sqrt()
    if name == 'arctan':
        return _c(1) / (1 + x * x)
    if name == 'arcsinh':
        return _c(1) / (1 + x * x).sqrt()
    if name == 'arccosh':
        return _c(1) / (x * x - 1).sqrt()
    if name == 'arctanh':
        return _c(1) / (1 - x * x)
    if name == 'erf':
        return 2 * S.kappa('rsqrtpi') * (-(x * x)).exp()
    if name == 'erfi':
        return 2 * S.kappa('rsqrtpi') * (x * x).exp()
    if name == 'dawsn':
        return 1 - 2 * x * n
    if name == 'logit':
        return _c(1) / (x * (1 - x))
    if name == 'expit':
        return n * (1 - n)
    if name == 'gammaln':
        return S.app('psi', (x,))
    if name == 'psi':
        return S.app('polygamma', (x,), (1,))
    if name == 'polygamma':
        return S.app('polygamma', (x,), (params[0] + 1,))
    if name == 'hyperu':
        a, b = params
        return S.app('hyperu', (x,), (a + 1, b + 1)) * (-a)
    if name == 'pow':
        return None
    return None


def d(nodes, seed):
    """tangents of `nodes` (list of Sym) for the input tangent `seed`
    {var name: Sym tangent}; variables not in seed are constants."""
    tan = {}
    zero = _c(0)
    save = S.current_ctx()
    S.set_ctx(None)
    try:
        for n in S.cone(list(nodes)):
            op = n.op
            if op == 'const':
                tan[n.id] = zero
            elif op == 'var':
                tan[n.id] = seed.get(n.a[0], zero)
            elif op == 'add':
                tan[n.id] = tan[n.a[0].id] + tan[n.a[1].id]
            elif op == 'mul':
                a, b = n.a
                ta, tb = tan[a.id], tan[b.id]
                tan[n.id] = ta * b + a * tb
            elif op == 'div':
                a, b = n.a
                ta, tb = tan[a.id], tan[b.id]
                if tb is zero:
                    tan[n.id] = ta / b
                else:
                    tan[n.id] = (ta * b - a * tb) / (b * b)
            elif op == 'app':
                name = n.a[0]
                args = n.a[2:]
                if name == 'pow':
                    x, r = args
                    tx, tr = tan[x.id], tan[r.id]
                    t = zero
                    if tx is not zero:
                        t = t + r * n / x * tx
                    if tr is not zero:
                        t = t + n * x.log() * tr
                    tan[n.id] = t
                    continue
                tx = tan[args[0].id]
                if tx is zero:
                    tan[n.id] = zero
                    continue
                fp = atom_derivative(n)
                if fp is None:
                    raise S.SymError('no derivative rule for atom %s' % name)
                tan[n.id] = fp * tx
    finally:
        S.set_ctx(save)
    return [tan[t.id] for t in nodes]


def ddx(node, varname):
    return d([node], {varname: _c(1)})[0]
