"""Symbolic arrays (object storage + logical dtype) and the numpy/scipy proxies
that are swapped into algopy's modules during symbolic runs (DESIGN 2.2, 2.3).

Nothing here changes algopy's source: `install()` replaces the module globals
`numpy` / `np` / `scipy` / `broadcast_arrays` of the algopy modules by proxy
objects and `uninstall()` puts the originals back.
"""
import contextlib
import itertools
from fractions import Fraction

import numpy as np
import scipy
import scipy.linalg
import scipy.special

from . import sym as S
from .sym import Sym, SymC, BoolSym

EVENTS = []          # e.g. ('imag-dropped', where)
STUBS_HIT = {}       # name -> count


def _hit(name):
    STUBS_HIT[name] = STUBS_HIT.get(name, 0) + 1


# ---------------------------------------------------------------------------
# logical dtype objects

class LDtype(object):
    """what SArr.dtype returns: numpy itself sees an object dtype (through the
    `.dtype` protocol), algopy-level code (through the proxy) sees `logical`"""

    def __init__(self, logical):
        self.logical = None if logical is None else np.dtype(logical)
        self.dtype = np.dtype(object)

    def __eq__(self, other):
        if isinstance(other, LDtype):
            return self.logical == other.logical
        if self.logical is None:
            return False
        try:
            return self.logical == np.dtype(other)
        except TypeError:
            return False

    def __ne__(self, other):
        return not self.__eq__(other)

    def __hash__(self):
        return hash(self.logical)

    def __repr__(self):
        return 'LDtype(%s)' % (self.logical,)

    @property
    def kind(self):
        return 'O' if self.logical is None else self.logical.kind

    @property
    def type(self):
        return object if self.logical is None else self.logical.type

    @property
    def name(self):
        return 'object' if self.logical is None else self.logical.name

    @property
    def itemsize(self):
        return 8 if self.logical is None else self.logical.itemsize


def logical_of(x):
    """logical dtype (np.dtype or None=unknown) of anything array/scalar-like"""
    if isinstance(x, SArr):
        return x._ld
    if isinstance(x, LDtype):
        return x.logical
    if isinstance(x, np.ndarray):
        if x.dtype == object:
            return infer_ld(x)
        return x.dtype
    if isinstance(x, SymC):
        return np.dtype(complex)
    if isinstance(x, Sym):
        return np.dtype(float)
    if isinstance(x, np.generic):
        return x.dtype
    if isinstance(x, bool):
        return np.dtype(bool)
    if isinstance(x, int):
        return np.dtype(int)
    if isinstance(x, float):
        return np.dtype(float)
    if isinstance(x, complex):
        return np.dtype(complex)
    return None


def infer_ld(arr):
    kinds = set()
    for e in np.asarray(arr).ravel():
        if isinstance(e, SymC) or isinstance(e, (complex, np.complexfloating)):
            kinds.add('c')
        elif isinstance(e, Sym) or isinstance(e, (float, np.floating, Fraction)):
            kinds.add('f')
        elif isinstance(e, (bool, np.bool_)):
            kinds.add('b')
        elif isinstance(e, (int, np.integer)):
            kinds.add('i')
        else:
            return None
    if 'c' in kinds:
        return np.dtype(complex)
    if 'f' in kinds:
        return np.dtype(float)
    if 'i' in kinds:
        return np.dtype(int)
    if 'b' in kinds:
        return np.dtype(bool)
    return np.dtype(float)


def as_logical(dt):
    """dtype argument as given to numpy.zeros(...) -> np.dtype or None"""
    if dt is None:
        return np.dtype(float)
    if isinstance(dt, LDtype):
        return dt.logical
    if dt is Sym:
        return np.dtype(float)
    if dt is SymC:
        return np.dtype(complex)
    if isinstance(dt, type) and dt is object:
        return None
    d = np.dtype(dt)
    if d == object:
        return None
    return d


# ---------------------------------------------------------------------------

def _norm_elem(e):
    """python number -> Sym so that elements are always Sym/SymC"""
    if isinstance(e, (Sym, SymC)):
        return e
    if isinstance(e, BoolSym):
        return S.const(1 if bool(e) else 0)
    l = S.lift(e)
    if l is None:
        return e
    return l


def _store_value(value, ld, where='setitem', unsafe=True):
    """emulate numpy's cast-on-store into an array of logical dtype ld"""
    if isinstance(value, np.ndarray):
        if real_dtype(value) != object:
            if ld is not None and ld.kind == 'f' and real_dtype(value).kind == 'c':
                EVENTS.append(('imag-dropped', where))
                value = value.real
            out = np.empty(value.shape, dtype=object)
            for idx in np.ndindex(*value.shape):
                out[idx] = S.lift(value[idx])
            return out
        out = np.empty(value.shape, dtype=object)
        src = np.asarray(value)
        for idx in np.ndindex(*value.shape):
            e = _norm_elem(src[idx])
            if isinstance(e, SymC) and ld is not None and ld.kind in 'fiu':
                if not e.is_real():
                    EVENTS.append(('imag-dropped', where))
                e = e.re
            out[idx] = e
        return out
    if isinstance(value, (list, tuple)):
        return _store_value(np.array(value, dtype=object), ld, where)
    e = _norm_elem(value)
    if isinstance(e, SymC) and ld is not None and ld.kind in 'fiu':
        if e.is_real():
            return e.re
        raise TypeError("can't convert complex to float (symbolic store of a complex scalar into a real array)")
    return e


class SArr(np.ndarray):
    """object ndarray carrying a logical dtype"""
    _ld = None

    def __new__(cls, arr, ld='infer'):
        """always allocates (the result OWNS its data, like a freshly computed
        numpy array); use view_sarr() to re-type an existing object array"""
        a = np.asarray(arr)
        if a.dtype != object:
            if ld == 'infer':
                ld = a.dtype
        obj = np.ndarray.__new__(cls, a.shape, dtype=object)
        flat_src = a.reshape(-1) if a.size else a.ravel()
        dst = np.ndarray.view(obj, np.ndarray).reshape(-1) if a.size else None
        if a.size:
            if a.dtype != object:
                for i in range(flat_src.shape[0]):
                    dst[i] = S.lift(flat_src[i])
            else:
                tmp = np.array(a, dtype=object, copy=True).reshape(-1)
                dst[...] = tmp
        if ld == 'infer':
            ld = infer_ld(a)
        obj._ld = None if ld is None else np.dtype(ld)
        return obj

    def __array_finalize__(self, obj):
        if obj is None:
            return
        self._ld = getattr(obj, '_ld', None)

    @property
    def dtype(self):
        return LDtype(self._ld)

    def plain(self):
        return self.view(np.ndarray)

    # -- stores ---------------------------------------------------------------
    def __setitem__(self, idx, value):
        np.ndarray.__setitem__(self, idx, _store_value(value, self._ld))

    def fill(self, value):
        np.ndarray.fill(self, _store_value(value, self._ld))

    def copy(self, order='C'):
        r = np.ndarray.copy(self, order)
        r._ld = self._ld
        return r

    def astype(self, dtype, *a, **k):
        ld = as_logical(dtype)
        out = np.empty(self.shape, dtype=object)
        out[...] = _store_value(self.plain(), ld, 'astype')
        return SArr(out, ld)

    @property
    def real(self):
        if self._ld is not None and self._ld.kind != 'c':
            return self
        out = np.empty(self.shape, dtype=object)
        src = self.plain()
        for idx in np.ndindex(*self.shape):
            out[idx] = src[idx].real
        # numpy returns a (non-owning) view here; the tracer looks at OWNDATA
        return SArr(out, float)[...]

    @real.setter
    def real(self, value):
        value = np.broadcast_to(np.asarray(value, dtype=object), self.shape)
        src = self.plain()
        for idx in np.ndindex(*self.shape):
            v = _norm_elem(value[idx])
            if isinstance(v, SymC):
                raise TypeError('complex value assigned to .real')
            old = src[idx]
            if self._ld is not None and self._ld.kind != 'c':
                src[idx] = v
            else:
                src[idx] = SymC(v, old.imag if isinstance(old, (Sym, SymC)) else 0)

    @property
    def imag(self):
        out = np.empty(self.shape, dtype=object)
        src = self.plain()
        for idx in np.ndindex(*self.shape):
            e = src[idx]
            out[idx] = e.imag if isinstance(e, (Sym, SymC)) else S.const(0)
        if self._ld is not None and self._ld.kind != 'c':
            return SArr(out, float)
        return SArr(out, float)[...]

    @imag.setter
    def imag(self, value):
        if self._ld is not None and self._ld.kind != 'c':
            raise TypeError('array does not have imaginary part to set')
        value = np.broadcast_to(np.asarray(value, dtype=object), self.shape)
        src = self.plain()
        for idx in np.ndindex(*self.shape):
            v = _norm_elem(value[idx])
            old = src[idx]
            src[idx] = SymC(old.real if isinstance(old, (Sym, SymC)) else 0, v)

    def conjugate(self):
        return np.conjugate(self)

    conj = conjugate

    def __reduce__(self):
        raise TypeError('SArr is not picklable')

    # -- ufuncs ---------------------------------------------------------------
    def __array_ufunc__(self, ufunc, method, *inputs, **kwargs):
        out = kwargs.pop('out', None)
        casting = kwargs.get('casting', 'same_kind')
        ins = []
        for i in inputs:
            if isinstance(i, SArr):
                ins.append(i.plain())
            else:
                ins.append(i)
        if out is not None:
            outs_plain = tuple(o.plain() if isinstance(o, SArr) else o for o in out)
            kwargs['out'] = outs_plain
        if 'casting' in kwargs:
            kwargs['casting'] = 'unsafe'
        res = getattr(ufunc, method)(*ins, **kwargs)
        # logical result dtype
        ld = _ufunc_ld(ufunc, method, inputs, kwargs)
        if out is not None:
            for o in out:
                if isinstance(o, SArr):
                    _fix_after_out(o, casting, ufunc)
            return out[0] if len(out) == 1 else out
        return _wrap(res, ld)

    def __array_wrap__(self, arr, context=None, return_scalar=False):
        if isinstance(arr, np.ndarray) and real_dtype(arr) == object:
            if isinstance(arr, SArr):
                r = arr
            else:
                r = SArr(arr, self._ld)
            if getattr(r, '_ld', None) is None:
                r._ld = self._ld
            if return_scalar and r.ndim == 0:
                return r[()]
            return r
        if return_scalar and getattr(arr, 'ndim', 1) == 0:
            return arr[()]
        return arr


def view_sarr(a, ld='infer'):
    """re-type an existing object ndarray as SArr sharing its memory"""
    r = a.view(SArr)
    r._ld = infer_ld(a) if ld == 'infer' else (None if ld is None else np.dtype(ld))
    return r


def _wrap(res, ld):
    if isinstance(res, tuple):
        return tuple(_wrap(r, ld) for r in res)
    if isinstance(res, np.ndarray) and real_dtype(res) == object:
        return SArr(res, ld)
    return res


def _fix_after_out(o, casting, ufunc):
    ld = o._ld
    if ld is None or ld.kind == 'c':
        # still normalise python numbers
        p = o.plain()
        for idx in np.ndindex(*p.shape):
            e = p[idx]
            if not isinstance(e, (Sym, SymC)):
                p[idx] = _norm_elem(e)
        return
    p = o.plain()
    for idx in np.ndindex(*p.shape):
        e = _norm_elem(p[idx])
        if isinstance(e, SymC):
            if e.is_real():
                e = e.re
            elif casting == 'unsafe':
                EVENTS.append(('imag-dropped', 'ufunc-out'))
                e = e.re
            else:
                raise TypeError("Cannot cast ufunc '%s' output from dtype('complex128') to "
                                "dtype('%s') with casting rule 'same_kind'" % (ufunc.__name__, ld))
        p[idx] = e


def _dummy(x):
    ld = logical_of(x)
    if isinstance(x, (Sym,)):
        return 1.0
    if isinstance(x, SymC):
        return 1j
    if isinstance(x, (int, float, complex, bool)):
        return x
    if ld is None:
        raise KeyError
    if isinstance(x, np.ndarray):
        return np.ones((1,) * min(x.ndim, 1), dtype=ld)
    return np.ones((), dtype=ld)[()]


def _ufunc_ld(ufunc, method, inputs, kwargs):
    try:
        d = [_dummy(i) for i in inputs]
        with np.errstate(all='ignore'):
            if method == '__call__':
                r = ufunc(*d)
            elif method == 'reduce':
                r = ufunc.reduce(np.atleast_1d(d[0]))
            elif method == 'accumulate':
                r = ufunc.accumulate(np.atleast_1d(d[0]))
            elif method == 'outer':
                r = ufunc.outer(np.atleast_1d(d[0]), np.atleast_1d(d[1]))
            else:
                return None
        if isinstance(r, tuple):
            r = r[0]
        return np.asarray(r).dtype
    except Exception:
        return None


def sarr(x, ld='infer'):
    return SArr(x, ld)


# ---------------------------------------------------------------------------
# exact small linear algebra on object arrays

def _det(a):
    n = a.shape[0]
    if n == 0:
        return S.const(1)
    if n == 1:
        return a[0, 0]
    if n == 2:
        return a[0, 0] * a[1, 1] - a[0, 1] * a[1, 0]
    tot = S.const(0)
    for j in range(n):
        minor = np.delete(np.delete(a, 0, axis=0), j, axis=1)
        term = a[0, j] * _det(minor)
        tot = tot + term if j % 2 == 0 else tot - term
    return tot


def spec_side(fn):
    """divisions inside stand for numpy.linalg/scipy.linalg itself: their divisors delimit the
    domain of the specification (singular matrix) and are not divisions performed by algopy"""
    import functools

    @functools.wraps(fn)
    def wrapper(*a, **kw):
        ctx = S.current_ctx()
        if ctx is None:
            return fn(*a, **kw)
        ctx.spec_depth += 1
        try:
            return fn(*a, **kw)
        finally:
            ctx.spec_depth -= 1
    return wrapper


@spec_side
def exact_inv(a):
    a = np.asarray(a, dtype=object)
    n = a.shape[0]
    if a.shape != (n, n) or n > 4:
        raise S.SymError('exact_inv: unsupported shape %s' % (a.shape,))
    # triangular matrices: cheap substitution keeps terms small
    d = _det(a)
    out = np.empty((n, n), dtype=object)
    if n == 1:
        out[0, 0] = S.const(1) / a[0, 0]
        return out
    for i in range(n):
        for j in range(n):
            minor = np.delete(np.delete(a, j, axis=0), i, axis=1)
            c = _det(minor)
            if (i + j) % 2:
                c = -c
            out[i, j] = c / d
    return out


@spec_side
def exact_solve(a, b):
    a = np.asarray(a, dtype=object)
    b = np.asarray(b, dtype=object)
    return np.dot(exact_inv(a), b)


# ---------------------------------------------------------------------------
# proxies

def _fallback_getattribute(realgetter):
    def __getattribute__(self, name):
        # algopy's generated dispatchers call module.__getattribute__(name) explicitly
        try:
            return object.__getattribute__(self, name)
        except AttributeError:
            return getattr(realgetter(self), name)
    return __getattribute__


class _LinalgProxy(object):
    def __init__(self, real, stubs):
        self._real = real
        self._stubs = stubs

    __getattribute__ = _fallback_getattribute(lambda self: object.__getattribute__(self, '_real'))

    def det(self, a):
        if _has_sym(a):
            _hit('numpy.linalg.det')
            return _det(np.asarray(a).view(np.ndarray))
        return self._real.det(a)

    def slogdet(self, a):
        if _has_sym(a):
            _hit('numpy.linalg.slogdet')
            d = _det(np.asarray(a).view(np.ndarray))
            if bool(d > 0):
                return S.const(1), d.log()
            return S.const(-1), (-d).log()
        return self._real.slogdet(a)

    def inv(self, a):
        if _has_sym(a):
            _hit('numpy.linalg.inv')
            return SArr(exact_inv(a), logical_of(a))
        return self._real.inv(a)

    def solve(self, a, b):
        if _has_sym(a) or _has_sym(b):
            _hit('numpy.linalg.solve')
            ld = np.promote_types(logical_of(a) or float, logical_of(b) or float)
            return SArr(exact_solve(a, b), ld)
        return self._real.solve(a, b)

    def solve_triangular(self, a, b, trans=0, lower=False, unit_diagonal=False, **kw):
        if _has_sym(a) or _has_sym(b):
            _hit('scipy.linalg.solve_triangular')
            A = np.array(np.asarray(a).view(np.ndarray), dtype=object)
            n = A.shape[0]
            # only the referenced triangle is read (LAPACK trtrs)
            for i in range(n):
                for j in range(n):
                    if (lower and j > i) or (not lower and j < i):
                        A[i, j] = S.const(0)
                    elif unit_diagonal and i == j:
                        A[i, j] = S.const(1)
            if trans in (1, 'T', 2, 'C'):
                A = A.T
            ld = np.promote_types(logical_of(a) or float, logical_of(b) or float)
            return SArr(exact_solve(A, b), ld)
        return self._real.solve_triangular(a, b, trans=trans, lower=lower, unit_diagonal=unit_diagonal, **kw)

    def lu_solve(self, lu_and_piv, b, trans=0, **kw):
        lu, piv = lu_and_piv
        if _has_sym(lu) or _has_sym(b):
            _hit('scipy.linalg.lu_solve')
            LU = np.asarray(lu).view(np.ndarray)
            n = LU.shape[0]
            L = np.empty((n, n), dtype=object)
            U = np.empty((n, n), dtype=object)
            for i in range(n):
                for j in range(n):
                    L[i, j] = LU[i, j] if j < i else S.const(1 if i == j else 0)
                    U[i, j] = LU[i, j] if j >= i else S.const(0)
            perm = list(range(n))
            for i, pv in enumerate(np.asarray(piv).tolist()):
                perm[i], perm[int(pv)] = perm[int(pv)], perm[i]
            B = np.array(np.asarray(b).view(np.ndarray), dtype=object)
            ld = np.promote_types(logical_of(lu) or float, logical_of(b) or float)
            if trans in (0, 'N'):
                # A = P L U with rows of A permuted: (L U) = A[perm]  =>  x = U^-1 L^-1 b[perm]
                y = exact_solve(L, B[perm])
                return SArr(exact_solve(U, y), ld)
            # A^T x = b:  U^T L^T (x[perm]) = b
            y = exact_solve(U.T, B)
            z = exact_solve(L.T, y)
            x = np.empty_like(z)
            for i, pi in enumerate(perm):
                x[pi] = z[i]
            return SArr(x, ld)
        return self._real.lu_solve(lu_and_piv, b, trans=trans, **kw)

    def _stub(self, name, *args, **kw):
        if any(_has_sym(a) for a in args):
            f = self._stubs.get(name)
            if f is None:
                raise S.SymError('no symbolic stub registered for %s' % name)
            _hit(name)
            return f(*args, **kw)
        return getattr(self._real, name.split('.')[-1])(*args, **kw)

    def qr(self, a, *args, **kw):
        return self._stub('qr', a, *args, **kw)

    def cholesky(self, a, *args, **kw):
        return self._stub('cholesky', a, *args, **kw)

    def eigh(self, a, *args, **kw):
        return self._stub('eigh', a, *args, **kw)

    def eig(self, a, *args, **kw):
        return self._stub('eig', a, *args, **kw)

    def lu(self, a, *args, **kw):
        return self._stub('lu', a, *args, **kw)

    def lu_factor(self, a, *args, **kw):
        return self._stub('lu_factor', a, *args, **kw)


_ND_DTYPE = np.ndarray.dtype.__get__


def real_dtype(a):
    """the storage dtype (SArr.dtype is the logical one)"""
    return _ND_DTYPE(a)


def _has_sym(a):
    if isinstance(a, (Sym, SymC)):
        return True
    if isinstance(a, np.ndarray) and _ND_DTYPE(a) == object:
        return True
    return False


def _exact_dft(a, n, axis, inverse):
    a = np.asarray(a, dtype=object)
    axis = axis % a.ndim if a.ndim else 0
    m = a.shape[axis]
    if n is None:
        n = m
    if n not in (1, 2, 4):
        raise S.SymError('exact DFT stub only for n in {1,2,4}, got %d' % n)
    a = np.moveaxis(a, axis, -1)
    if n < m:
        a = a[..., :n]
    elif n > m:
        pad = np.empty(a.shape[:-1] + (n - m,), dtype=object)
        pad.fill(S.const(0))
        a = np.concatenate([a, pad], axis=-1)
    # n-th roots of unity for n | 4 are in {1, -i, -1, i}
    roots = [SymC(1, 0), SymC(0, -1), SymC(-1, 0), SymC(0, 1)]
    out = np.empty(a.shape, dtype=object)
    for idx in np.ndindex(*a.shape[:-1]):
        for k in range(n):
            s = SymC(0, 0)
            for j in range(n):
                step = (4 // n) * ((j * k) % n)
                w = roots[step % 4]
                if inverse:
                    w = w.conjugate()
                s = s + w * a[idx + (j,)]
            if inverse:
                s = s / n
            out[idx + (k,)] = s
    return np.moveaxis(out, -1, axis)


class _FFTProxy(object):
    def __init__(self, real):
        self._real = real

    __getattribute__ = _fallback_getattribute(lambda self: object.__getattribute__(self, '_real'))

    def fft(self, a, n=None, axis=-1, **kw):
        if _has_sym(a):
            _hit('numpy.fft.fft')
            return SArr(_exact_dft(a, n, axis, False), complex)
        return self._real.fft(a, n=n, axis=axis, **kw)

    def ifft(self, a, n=None, axis=-1, **kw):
        if _has_sym(a):
            _hit('numpy.fft.ifft')
            return SArr(_exact_dft(a, n, axis, True), complex)
        return self._real.ifft(a, n=n, axis=axis, **kw)


class _NoErrstate(object):
    """numpy.errstate: nothing to switch for exact arithmetic, except that inside
    errstate(divide='ignore') a non-zero constant divided by the constant zero is the node @inf
    (the code overwrites or inverts such entries: 1/E with zeros in E, then H[block] = 0)"""

    def __init__(self, *a, **k):
        self.div = k.get('divide', k.get('all')) == 'ignore'

    def __enter__(self):
        if self.div:
            S._HOOKS['divide_ignored'] = S._HOOKS.get('divide_ignored', 0) + 1
        return self

    def __exit__(self, *a):
        if self.div:
            S._HOOKS['divide_ignored'] -= 1
        return False


class _ScimathProxy(object):
    def __getattr__(self, name):
        return getattr(np.lib.scimath, name)

    def sqrt(self, x):
        if not _has_sym(x):
            return np.lib.scimath.sqrt(x)
        _hit('numpy.lib.scimath.sqrt')

        def one(e):
            e = _norm_elem(e)
            if isinstance(e, SymC):
                return e.sqrt()
            if bool(e >= 0):
                return e.sqrt()
            return SymC(0, (-e).sqrt())
        if isinstance(x, (Sym, SymC)):
            return one(x)
        p = np.asarray(x).view(np.ndarray)
        if p.ndim == 0:
            return one(p[()])
        r = np.empty(p.shape, dtype=object)
        for idx in np.ndindex(*p.shape):
            r[idx] = one(p[idx])
        return SArr(r)


class _LibProxy(object):
    scimath = _ScimathProxy()

    def __getattr__(self, name):
        return getattr(np.lib, name)


class NumpyProxy(object):
    """stands in for the module `numpy` inside algopy's modules"""
    lib = _LibProxy()

    def __init__(self, stubs):
        self._np = np
        self.linalg = _LinalgProxy(np.linalg, stubs)
        self.fft = _FFTProxy(np.fft)
        self.errstate = _NoErrstate
        self.ndarray = np.ndarray

    __getattribute__ = _fallback_getattribute(lambda self: np)

    # -- allocation ---------------------------------------------------------
    def _alloc(self, shape, dtype, fillv):
        ld = as_logical(dtype)
        if ld is not None and ld.kind in 'biu':
            return np.full(shape, fillv, dtype=ld)
        a = np.empty(shape, dtype=object)
        a.fill(S.const(fillv))
        return SArr(a, ld)

    def zeros(self, shape, dtype=float, order='C', **kw):
        return self._alloc(shape, dtype, 0)

    def ones(self, shape, dtype=float, order='C', **kw):
        return self._alloc(shape, dtype, 1)

    def empty(self, shape, dtype=float, order='C', **kw):
        return self._alloc(shape, dtype, 0)

    def zeros_like(self, a, dtype=None, **kw):
        if dtype is None and not _has_sym(a):
            if isinstance(a, np.ndarray) and real_dtype(a).kind in 'biu':
                return np.zeros_like(a)
            return self._alloc(np.shape(a), logical_of(a), 0)
        return self._alloc(np.shape(a), LDtype(logical_of(a)) if dtype is None else dtype, 0)

    def ones_like(self, a, dtype=None, **kw):
        return self._alloc(np.shape(a), LDtype(logical_of(a)) if dtype is None else dtype, 1)

    def empty_like(self, a, dtype=None, **kw):
        if dtype is None and isinstance(a, np.ndarray) and real_dtype(a).kind in 'biu':
            return np.empty_like(a)
        return self._alloc(np.shape(a), LDtype(logical_of(a)) if dtype is None else dtype, 0)

    def eye(self, N, M=None, k=0, dtype=float, **kw):
        r = self._alloc((N, N if M is None else M), dtype, 0)
        e = np.eye(N, M, k)
        for idx in np.argwhere(e != 0):
            r[tuple(idx)] = 1
        return r

    def identity(self, n, dtype=None):
        return self.eye(n, dtype=float if dtype is None else dtype)

    def array(self, obj, dtype=None, **kw):
        if isinstance(obj, SArr) and dtype is None:
            return obj.copy()
        if dtype is not None:
            ld = as_logical(dtype)
            if ld is not None and ld.kind in 'biu':
                return np.array(obj, dtype=ld, **kw)
            a = np.array(obj, dtype=object)
            out = np.empty(a.shape, dtype=object)
            out[...] = _store_value(a, ld, 'array')
            return SArr(out, ld)
        a = np.array(obj, **kw)
        if a.dtype == object:
            flat = a.ravel()
            if flat.size and all(isinstance(e, (Sym, SymC, int, float, complex, np.number)) for e in flat):
                return SArr(a)
            return a
        if a.dtype.kind in 'fc':
            return SArr(a, a.dtype)
        return a

    def asarray(self, obj, dtype=None, **kw):
        if isinstance(obj, SArr) and dtype is None:
            return obj
        if isinstance(obj, np.ndarray) and dtype is None:
            if obj.dtype == object:
                flat = obj.ravel()
                if flat.size and all(isinstance(e, (Sym, SymC, int, float, complex, np.number)) for e in flat):
                    return view_sarr(obj)
                return obj
            if obj.dtype.kind in 'fc':
                return SArr(obj, obj.dtype)
            return obj
        return self.array(obj, dtype=dtype)

    asanyarray = asarray

    def copy(self, a, **kw):
        if isinstance(a, np.ndarray):
            return a.copy()
        return np.copy(a)

    def promote_types(self, a, b):
        la = as_logical(a)
        lb = as_logical(b)
        if la is None or lb is None:
            return LDtype(None)
        return LDtype(np.promote_types(la, lb))

    def result_type(self, *args):
        """numpy.result_type over dtypes, some of which are logical dtypes of symbolic arrays"""
        if not any(isinstance(a, LDtype) or a is Sym or a is SymC for a in args):
            return np.result_type(*args)
        la = []
        for a in args:
            try:
                la.append(as_logical(a))
            except TypeError:
                la.append(as_logical(getattr(a, 'dtype', None)))
        if any(l is None for l in la):
            return LDtype(None)
        return LDtype(np.result_type(*la))

    def broadcast_arrays(self, *args, **kw):
        kw['subok'] = True
        return np.broadcast_arrays(*args, **kw)

    def nan_to_num(self, x, *a, **k):
        if _has_sym(x):
            _hit('numpy.nan_to_num')
            return x
        return np.nan_to_num(x, *a, **k)

    def isscalar(self, x):
        return np.isscalar(x)

    def real(self, x):
        if isinstance(x, (SArr, Sym, SymC)):
            return x.real
        return np.real(x)

    def imag(self, x):
        if isinstance(x, (SArr, Sym, SymC)):
            return x.imag
        return np.imag(x)

    def allclose(self, a, b, *args, **kw):
        # only used by UTPM.eig to decide whether a complex result is real
        if _has_sym(a) or _has_sym(b):
            _hit('numpy.allclose')
            a_ = np.broadcast_to(np.asarray(a, dtype=object), np.broadcast(a, b).shape)
            b_ = np.broadcast_to(np.asarray(b, dtype=object), a_.shape)
            ctx = S.current_ctx()

            def is_zero(t):
                # exactly zero for ALL admissible inputs (constant zero, or `t != 0` unsatisfiable
                # under the assumptions / path); a term that can be non-zero is generically not
                # within atol of zero -- the thin set where it is lies outside the claim
                if t.is_const():
                    return t.cval() == 0
                if ctx is None:
                    return False
                r = ctx.feasible(t != 0)
                if r == 'unknown':
                    from .engine import Inconclusive
                    raise Inconclusive('numpy.allclose: cannot decide whether a term is identically zero')
                return r == 'unsat'
            for idx in np.ndindex(*a_.shape):
                d = _norm_elem(a_[idx]) - _norm_elem(b_[idx])
                if isinstance(d, SymC):
                    if not (is_zero(d.re) and is_zero(d.im)):
                        return False
                elif not is_zero(d):
                    return False
            return True
        return np.allclose(a, b, *args, **kw)

    def diag(self, v, k=0):
        if _has_sym(v):
            v = np.asarray(v)
            p = v.view(np.ndarray)
            if p.ndim == 1:
                n = p.shape[0] + abs(k)
                r = np.empty((n, n), dtype=object)
                r.fill(S.const(0))
                for i in range(p.shape[0]):
                    if k >= 0:
                        r[i, i + k] = p[i]
                    else:
                        r[i - k, i] = p[i]
                return SArr(r, logical_of(v))
            return SArr(np.diagonal(p, k).copy(), logical_of(v))
        return np.diag(v, k)

    def tril(self, m, k=0):
        if _has_sym(m):
            return self._tri(m, k, True)
        return np.tril(m, k)

    def triu(self, m, k=0):
        if _has_sym(m):
            return self._tri(m, k, False)
        return np.triu(m, k)

    def _tri(self, m, k, lower):
        p = np.array(np.asarray(m).view(np.ndarray), dtype=object)
        mask = np.tri(*p.shape[-2:], k=k if lower else k - 1, dtype=bool)
        if not lower:
            mask = ~mask
        z = S.const(0)
        for idx in np.ndindex(*p.shape):
            if not mask[idx[-2:]]:
                p[idx] = z
        return SArr(p, logical_of(m))


class ScipyProxy(object):
    def __init__(self, stubs):
        self.linalg = _LinalgProxy(scipy.linalg, stubs)
        self.special = scipy.special

    __getattribute__ = _fallback_getattribute(lambda self: scipy)


# ---------------------------------------------------------------------------
# scipy.special dispatching wrappers (installed before algopy is imported)

_SPECIAL_1 = ['erf', 'erfi', 'dawsn', 'logit', 'expit', 'gammaln', 'psi']
_special_installed = False
_real_special = {}


def _atom1(name, x):
    if name == 'expit':
        e = x.exp()
        return e / (1 + e)
    ctx = S.current_ctx()
    if ctx is not None:
        v = ctx.atom_value(name, x)
        if v is not None:
            return v
    return S.app(name, (x,))


def _map_obj(f, x, out=None):
    if isinstance(x, (Sym,)):
        r = f(x)
        if out is not None:
            out[...] = r
            return out
        return r
    a = np.asarray(x)
    p = a.view(np.ndarray)
    r = np.empty(p.shape, dtype=object)
    for idx in np.ndindex(*p.shape):
        e = _norm_elem(p[idx])
        if isinstance(e, SymC):
            raise S.SymError('special function of a symbolic complex argument')
        r[idx] = f(e)
    if out is not None:
        out[...] = r
        return out
    return SArr(r, float)


def install_special_wrappers():
    """must run before `import algopy` (nthderiv's decorators capture the
    function objects)"""
    global _special_installed
    if _special_installed:
        return
    _special_installed = True

    def make1(name):
        real = getattr(scipy.special, name)
        _real_special[name] = real

        def w(x, *args, **kw):
            if _has_sym(x):
                _hit('scipy.special.' + name)
                out = kw.get('out', args[0] if args else None)
                return _map_obj(lambda e: _atom1(name, e), x, out)
            return real(x, *args, **kw)
        w.__name__ = name
        w.__doc__ = real.__doc__
        w._symx_real = real
        return w

    for name in _SPECIAL_1:
        setattr(scipy.special, name, make1(name))

    real_pg = scipy.special.polygamma
    _real_special['polygamma'] = real_pg

    def polygamma(n, x):
        if _has_sym(x):
            _hit('scipy.special.polygamma')
            n_ = int(n)
            if n_ == 0:
                return _map_obj(lambda e: _atom1('psi', e), x)
            if n_ == -1:
                return _map_obj(lambda e: _atom1('gammaln', e), x)
            return _map_obj(lambda e: S.app('polygamma', (e,), (n_,)), x)
        return real_pg(n, x)
    polygamma.__doc__ = real_pg.__doc__
    scipy.special.polygamma = polygamma

    real_hu = scipy.special.hyperu
    _real_special['hyperu'] = real_hu

    def hyperu(a, b, x, *args, **kw):
        if _has_sym(x):
            _hit('scipy.special.hyperu')
            out = kw.get('out', args[0] if args else None)
            fa, fb = Fraction(a).limit_denominator(1000), Fraction(b).limit_denominator(1000)
            return _map_obj(lambda e: S.app('hyperu', (e,), (fa, fb)), x, out)
        return real_hu(a, b, x, *args, **kw)
    hyperu.__name__ = 'hyperu'
    hyperu.__doc__ = real_hu.__doc__
    scipy.special.hyperu = hyperu

    real_poch = scipy.special.poch
    _real_special['poch'] = real_poch

    def poch(z, m):
        # exact rising factorial for the rational arguments the code uses
        if isinstance(m, (int, np.integer)) and not _has_sym(z):
            try:
                fz = Fraction(z).limit_denominator(1000)
                if abs(float(fz) - float(z)) < 1e-12 and 0 <= int(m) <= 40:
                    r = Fraction(1)
                    for i in range(int(m)):
                        r *= (fz + i)
                    if S.current_ctx() is not None and S.current_ctx().mode == 'sym':
                        return S.const(r)
            except (TypeError, ValueError, OverflowError):
                pass
        return real_poch(z, m)
    poch.__doc__ = real_poch.__doc__
    scipy.special.poch = poch

    real_leg = scipy.special.eval_legendre
    _real_special['eval_legendre'] = real_leg

    def eval_legendre(n, x, *args, **kw):
        if _has_sym(x):
            _hit('scipy.special.eval_legendre')
            n_ = int(n)

            def leg(e):
                p0, p1 = 1, e
                if n_ == 0:
                    return e * 0 + 1
                for k in range(1, n_):
                    p0, p1 = p1, ((2 * k + 1) * e * p1 - k * p0) / (k + 1)
                return p1
            a = np.asarray(x)
            if a.ndim == 0:
                return leg(a[()] if isinstance(x, np.ndarray) else x)
            p = a.view(np.ndarray)
            r = np.empty(p.shape, dtype=object)
            for idx in np.ndindex(*p.shape):
                r[idx] = leg(p[idx])
            return SArr(r)
        return real_leg(n, x, *args, **kw)
    eval_legendre.__doc__ = real_leg.__doc__
    scipy.special.eval_legendre = eval_legendre


# ---------------------------------------------------------------------------
# installing the proxies into algopy's modules

_PATCH_MODULES = [
    'algopy.utpm.utpm', 'algopy.utpm.algorithms', 'algopy.tracer.tracer',
    'algopy.globalfuncs', 'algopy.utils', 'algopy.linalg.linalg',
    'algopy.linalg.compound', 'algopy.nthderiv.nthderiv', 'algopy.special.special',
    'algopy.fft.fft', 'algopy.compound',
]

STUBS = {}           # name -> callable, set by the harnesses (linalg contract stubs)


@contextlib.contextmanager
def installed():
    import importlib
    saved = []
    npx = NumpyProxy(STUBS)
    spx = ScipyProxy(STUBS)
    for mn in _PATCH_MODULES:
        try:
            mod = importlib.import_module(mn)
        except ImportError:
            continue
        for attr, repl in (('numpy', npx), ('np', npx), ('scipy', spx),
                           ('broadcast_arrays', npx.broadcast_arrays)):
            if attr in mod.__dict__:
                saved.append((mod, attr, mod.__dict__[attr]))
                mod.__dict__[attr] = repl
    try:
        yield npx
    finally:
        for mod, attr, old in saved:
            mod.__dict__[attr] = old
