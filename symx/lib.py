"""Helpers shared by the property harnesses: number-type generic math, truncated
power series, the composition oracle and textbook derivative tables.  None of
this uses algopy."""
import math
from fractions import Fraction

import numpy as np

from . import sym as S
from .sym import Sym, SymC


# ---------------------------------------------------------------------------
# number-type generic elementary functions

class _F(object):
    def __getattr__(self, name):
        def f(x, *params):
            if isinstance(x, (Sym, SymC)):
                if params:
                    return _sym_special(name, x, params)
                m = getattr(x, name, None)
                if m is not None:
                    return m()
                return _sym_special(name, x, ())
            return _float_fn(name, x, params)
        return f


def _sym_special(name, x, params):
    ctx = S.current_ctx()
    if name == 'polygamma':
        m = int(params[0])
        if m == 0:
            name, params = 'psi', ()
        elif m == -1:
            name, params = 'gammaln', ()
        else:
            return S.app('polygamma', (x,), (m,))
    if name == 'hyperu':
        return S.app('hyperu', (x,), (Fraction(params[0]).limit_denominator(1000),
                                     Fraction(params[1]).limit_denominator(1000)))
    if name == 'expit':
        e = x.exp()
        return e / (1 + e)
    if ctx is not None:
        v = ctx.atom_value(name, x)
        if v is not None:
            return v
    return S.app(name, (x,))


def _float_fn(name, x, params):
    import scipy.special as sp
    if name in ('erf', 'erfi', 'dawsn', 'logit', 'expit', 'gammaln', 'psi'):
        return float(getattr(sp, name)(x))
    if name == 'polygamma':
        return float(sp.polygamma(int(params[0]), x))
    if name == 'hyperu':
        return float(sp.hyperu(float(params[0]), float(params[1]), x))
    r = getattr(np, name)(x)
    return complex(r) if isinstance(r, (complex, np.complexfloating)) else float(r)


F = _F()


def rat(p, q=1):
    return Fraction(p, q)


def num(ctx, fr):
    """a rational constant in the number type of the run"""
    if ctx.mode == 'sym':
        return S.const(Fraction(fr))
    return float(Fraction(fr))


# ---------------------------------------------------------------------------
# truncated power series (lists of coefficients), naive arithmetic

def ps_mul(a, b, D):
    out = []
    for d in range(D):
        s = 0
        for k in range(d + 1):
            if k < len(a) and d - k < len(b):
                s = s + a[k] * b[d - k]
        out.append(s)
    return out


def ps_add(a, b):
    return [x + y for x, y in zip(a, b)]


def compose(derivs, x, D):
    """coefficients of f(x(t)) mod t^D from derivs[k] = f^(k)(x0), x = [x0..x_{D-1}]
    via  sum_k f^(k)(x0)/k! * (x(t)-x0)^k  (Taylor's theorem; no recurrences)"""
    h = [0] + list(x[1:D])
    while len(h) < D:
        h.append(0)
    out = [0] * D
    out[0] = derivs[0]
    hp = [1] + [0] * (D - 1)       # h^0
    for k in range(1, D):
        hp = ps_mul(hp, h, D)
        c = Fraction(1, math.factorial(k))
        for d in range(k, D):
            if not (isinstance(hp[d], int) and hp[d] == 0):
                out[d] = out[d] + derivs[k] * hp[d] * c
    return out


# ---------------------------------------------------------------------------
# univariate polynomials with Fraction coefficients (for derivative tables)

def p_add(a, b):
    n = max(len(a), len(b))
    return [(a[i] if i < len(a) else 0) + (b[i] if i < len(b) else 0) for i in range(n)]


def p_mul(a, b):
    if not a or not b:
        return []
    out = [Fraction(0)] * (len(a) + len(b) - 1)
    for i, x in enumerate(a):
        for j, y in enumerate(b):
            out[i + j] += x * y
    return out


def p_scale(a, c):
    return [x * c for x in a]


def p_der(a):
    return [a[i] * i for i in range(1, len(a))]


def p_eval(a, x):
    r = 0
    for c in reversed(a):
        r = r * x + c
    return r


def ffact(r, k):
    """falling factorial r (r-1) ... (r-k+1)"""
    p = 1
    for i in range(k):
        p = p * (r - i)
    return p


def ipow(x, n):
    p = 1
    for _ in range(n):
        p = p * x
    return p


# ---------------------------------------------------------------------------
# derivative tables:  name -> function(ctx, x0, K, **params) -> [f(x0), ..., f^(K)(x0)]
# (textbook closed forms; expressed in the same atoms the real code meets)

def d_exp(ctx, x0, K):
    e = F.exp(x0)
    return [e] * (K + 1)


def d_expm1(ctx, x0, K):
    return [F.expm1(x0)] + [F.exp(x0)] * K


def d_log(ctx, x0, K):
    return [F.log(x0)] + [Fraction((-1) ** (k - 1) * math.factorial(k - 1)) / ipow(x0, k) for k in range(1, K + 1)]


def d_log1p(ctx, x0, K):
    return [F.log1p(x0)] + [Fraction((-1) ** (k - 1) * math.factorial(k - 1)) / ipow(1 + x0, k) for k in range(1, K + 1)]


def d_sqrt(ctx, x0, K):
    r = F.sqrt(x0)
    return [r * ffact(Fraction(1, 2), k) / ipow(x0, k) for k in range(K + 1)]


def d_powi(ctx, x0, K, n=2):
    out = []
    for k in range(K + 1):
        c = ffact(n, k)
        if c == 0:
            out.append(x0 * 0)
        elif n - k >= 0:
            out.append(ipow(x0, n - k) * c)
        else:
            out.append(c / ipow(x0, k - n))
    return out


def d_powr(ctx, x0, K, r=None):
    y0 = x0 ** r
    return [y0 * ffact(r, k) / ipow(x0, k) for k in range(K + 1)]


def d_rpow(ctx, x0, K, c=None):
    lc = F.log(c)
    e = F.exp(lc * x0)
    return [e * ipow(lc, k) for k in range(K + 1)]


def d_sin(ctx, x0, K):
    s, c = F.sin(x0), F.cos(x0)
    return [[s, c, -s, -c][k % 4] for k in range(K + 1)]


def d_cos(ctx, x0, K):
    s, c = F.sin(x0), F.cos(x0)
    return [[c, -s, -c, s][k % 4] for k in range(K + 1)]


def _poly_chain(p0, rule, K):
    """f^(k) = p_k(T) where d/dx p(T) = rule(p)"""
    ps = [p0]
    for _ in range(K):
        ps.append(rule(ps[-1]))
    return ps


def d_tan(ctx, x0, K):
    T = F.tan(x0)
    one_t2 = [Fraction(1), Fraction(0), Fraction(1)]
    ps = _poly_chain([Fraction(0), Fraction(1)], lambda p: p_mul(p_der(p), one_t2), K)
    return [p_eval(p, T) if p else T * 0 for p in ps]


def d_tanh(ctx, x0, K):
    T = F.tanh(x0)
    one_t2 = [Fraction(1), Fraction(0), Fraction(-1)]
    ps = _poly_chain([Fraction(0), Fraction(1)], lambda p: p_mul(p_der(p), one_t2), K)
    return [p_eval(p, T) if p else T * 0 for p in ps]


def d_sinh(ctx, x0, K):
    s, c = F.sinh(x0), F.cosh(x0)
    return [[s, c][k % 2] for k in range(K + 1)]


def d_cosh(ctx, x0, K):
    s, c = F.sinh(x0), F.cosh(x0)
    return [[c, s][k % 2] for k in range(K + 1)]


def _arcsin_polys(K):
    # f^(k) = P_k(x) / (1-x^2)^(k-1/2),  P_1 = 1, P_{k+1} = P_k' (1-x^2) + (2k-1) x P_k
    P = {1: [Fraction(1)]}
    for k in range(1, K):
        P[k + 1] = p_add(p_mul(p_der(P[k]), [Fraction(1), Fraction(0), Fraction(-1)]),
                         p_mul([Fraction(0), Fraction(2 * k - 1)], P[k]))
    return P


def d_arcsin(ctx, x0, K, Z=None):
    """Z = sqrt(1-x0^2) (supplied by the harness' parametrisation)"""
    P = _arcsin_polys(K)
    return [F.arcsin(x0)] + [p_eval(P[k], x0) / ipow(Z, 2 * k - 1) for k in range(1, K + 1)]


def d_arccos(ctx, x0, K, Z=None):
    P = _arcsin_polys(K)
    return [F.arccos(x0)] + [-(p_eval(P[k], x0) / ipow(Z, 2 * k - 1)) for k in range(1, K + 1)]


def d_arctan(ctx, x0, K):
    # f^(k) = Q_k(x)/(1+x^2)^k, Q_1 = 1, Q_{k+1} = Q_k'(1+x^2) - 2k x Q_k
    Q = {1: [Fraction(1)]}
    for k in range(1, K):
        Q[k + 1] = p_add(p_mul(p_der(Q[k]), [Fraction(1), Fraction(0), Fraction(1)]),
                         p_mul([Fraction(0), Fraction(-2 * k)], Q[k]))
    w = 1 + x0 * x0
    return [F.arctan(x0)] + [p_eval(Q[k], x0) / ipow(w, k) for k in range(1, K + 1)]


def d_reciprocal(ctx, x0, K):
    return [Fraction((-1) ** k * math.factorial(k)) / ipow(x0, k + 1) for k in range(K + 1)]


def d_square(ctx, x0, K):
    return [x0 * x0, 2 * x0, x0 * 0 + 2] + [x0 * 0] * max(0, K - 2)


def _two_over_sqrt_pi(ctx):
    if ctx.mode == 'sym':
        return 2 * S.kappa('rsqrtpi')
    return 2.0 / math.sqrt(math.pi)


def d_erf(ctx, x0, K, sign=-1):
    # f' = c exp(sign x^2) p(x), p_1 = 1, p' -> p' + sign 2 x p
    c = _two_over_sqrt_pi(ctx)
    e = F.exp(-(x0 * x0)) if sign < 0 else F.exp(x0 * x0)
    ps = _poly_chain([Fraction(1)], lambda p: p_add(p_der(p), p_mul([Fraction(0), Fraction(2 * sign)], p)), max(0, K - 1))
    base = F.erf(x0) if sign < 0 else F.erfi(x0)
    return [base] + [c * e * p_eval(ps[k - 1], x0) for k in range(1, K + 1)]


def d_erfi(ctx, x0, K):
    return d_erf(ctx, x0, K, sign=+1)


def d_dawsn(ctx, x0, K):
    Dn = F.dawsn(x0)
    a, b = [Fraction(0)], [Fraction(1)]
    out = [Dn]
    for _ in range(K):
        a, b = p_add(p_der(a), b), p_add(p_der(b), p_mul([Fraction(0), Fraction(-2)], b))
        out.append(p_eval(a, x0) + p_eval(b, x0) * Dn)
    return out


def d_logit(ctx, x0, K):
    return [F.logit(x0)] + [Fraction((-1) ** (k - 1) * math.factorial(k - 1)) / ipow(x0, k)
                            + Fraction(math.factorial(k - 1)) / ipow(1 - x0, k) for k in range(1, K + 1)]


def d_expit(ctx, x0, K):
    e = F.exp(x0)
    s = e / (1 + e)
    s1s = [Fraction(0), Fraction(1), Fraction(-1)]
    ps = _poly_chain([Fraction(0), Fraction(1)], lambda p: p_mul(p_der(p), s1s), K)
    return [F.expit(x0)] + [p_eval(ps[k], s) for k in range(1, K + 1)]


def d_gammaln(ctx, x0, K):
    return [F.gammaln(x0)] + [F.polygamma(x0, k - 1) for k in range(1, K + 1)]


def d_psi(ctx, x0, K):
    return [F.polygamma(x0, k) for k in range(K + 1)]


def d_polygamma(ctx, x0, K, m=1):
    return [F.polygamma(x0, m + k) for k in range(K + 1)]


def d_hyperu(ctx, x0, K, a=None, b=None):
    a = Fraction(a)
    b = Fraction(b)
    out = []
    for k in range(K + 1):
        poch = 1
        for i in range(k):
            poch *= (a + i)
        out.append(F.hyperu(x0, a + k, b + k) * ((-1) ** k * poch))
    return out
