"""./check <ID> --tier quick|thorough [--replay file] [--unit substr] [--jobs N]"""
import argparse
import importlib
import json
import multiprocessing as mp
import os
import sys
import time

VERIF = os.path.dirname(os.path.dirname(os.path.abspath(__file__)))
EXIT_OK, EXIT_VIOLATION, EXIT_INCONCLUSIVE = 0, 1, 2


class UnitTimeout(BaseException):
    pass


def _alarm(signum, frame):
    raise UnitTimeout()


def _worker(args):
    unit, tier, seed = args
    import resource
    import signal
    import symx
    symx.load_algopy()
    from symx import runner
    limit = int(unit.opts.get('unit_timeout', 150 if tier == 'quick' else 900))
    try:
        mem = int(unit.opts.get('unit_mem_gb', 6)) << 30
        resource.setrlimit(resource.RLIMIT_AS, (mem, mem))
    except (ValueError, OSError):
        pass
    signal.signal(signal.SIGALRM, _alarm)
    signal.alarm(limit)
    try:
        return runner.run_unit(unit, tier, seed)
    except UnitTimeout:
        r = runner.new_result(unit)
        r['inconclusive'].append('%s: unit time limit %ds exceeded (never a pass)' % (unit.name, limit))
        return r
    except MemoryError:
        r = runner.new_result(unit)
        r['inconclusive'].append('%s: unit memory limit exceeded (never a pass)' % unit.name)
        return r
    except BaseException as e:        # path-steering exceptions are BaseException
        import traceback
        r = runner.new_result(unit)
        r['inconclusive'].append('%s: worker crashed: %s: %s' % (unit.name, type(e).__name__, str(e)[:300]))
        r['notes'].append(traceback.format_exc()[-1500:])
        return r
    finally:
        signal.alarm(0)


def load_known(pid):
    """known_findings.txt: lines 'finding: property=<id> unit=<unit name> :: <what fails>'
    and 'fixed: property=<id> <commit> <what failed>' (fixed entries suppress nothing)"""
    out = []
    path = os.path.join(VERIF, 'known_findings.txt')
    if not os.path.exists(path):
        return out
    for line in open(path):
        line = line.strip()
        if not line.startswith('finding:'):
            continue
        body = line[len('finding:'):].strip()
        if ('property=%s ' % pid) not in body + ' ':
            continue
        unit = None
        for tok in body.split(' :: ')[0].split():
            if tok.startswith('unit='):
                unit = tok[5:]
        out.append({'unit': unit, 'text': body})
    return out


def replay(pid, path):
    import symx
    symx.load_algopy()
    from symx import runner
    d = json.load(open(path))
    unit = runner.Unit(d['unit'], d['module'], d['func'], _unjson_kwargs(d['module'], d['func'], d['kwargs']),
                       {'property': d.get('property')})
    fctx, st = runner.run_float(unit, d['assignment'])
    if st != 'ok':
        print('replay: point rejected by the harness preconditions')
        return EXIT_INCONCLUSIVE
    if fctx.float_failures:
        for f in fctx.float_failures[:10]:
            print('replay: %s: %s' % (f[0], f[1]))
        print('VIOLATION property=%s replay=%s' % (pid, path))
        return EXIT_VIOLATION
    print('replay: no discrepancy on the current tree')
    return EXIT_OK


def _unjson_kwargs(module, func, kw):
    # tuples were stored as lists
    def fix(v):
        if isinstance(v, list):
            return tuple(fix(x) for x in v)
        if isinstance(v, dict):
            return {k: fix(x) for k, x in v.items()}
        return v
    return {k: fix(v) for k, v in kw.items()}


def main(argv=None):
    ap = argparse.ArgumentParser()
    ap.add_argument('pid')
    ap.add_argument('--tier', default=os.environ.get('VERIF_TIER', 'quick'))
    ap.add_argument('--replay')
    ap.add_argument('--unit', default=None, help='only units whose name contains this')
    ap.add_argument('--jobs', type=int, default=int(os.environ.get('VERIF_JOBS', '0')) or min(16, os.cpu_count() or 4))
    ap.add_argument('--no-evidence', action='store_true')
    ap.add_argument('-v', action='store_true')
    a = ap.parse_args(argv)
    pid = a.pid.upper()
    seed = int(os.environ.get('VERIF_SEED', '0') or 0)
    if a.replay:
        return replay(pid, a.replay)
    t0 = time.time()
    mod = importlib.import_module('symx.props.' + pid.lower())
    units = mod.units(a.tier, seed)
    if a.unit:
        units = [u for u in units if a.unit in u.name]
    # biggest first
    jobs = [(u, a.tier, seed) for u in units]
    results = []
    if a.jobs <= 1 or len(jobs) <= 1:
        for j in jobs:
            results.append(_worker(j))
    else:
        ctxm = mp.get_context('fork')
        with ctxm.Pool(a.jobs, maxtasksperchild=20) as pool:
            for r in pool.imap_unordered(_worker, jobs, chunksize=1):
                results.append(r)
                if a.v:
                    print('  %-60s paths=%d obl=%d syn=%d dis=%d %.1fs %s' % (
                        r['unit'], r['paths'], r['obligations'], r['syntactic'], r['discharged'], r['wall_s'],
                        'VIOL' if r['violations'] else ('INC' if r['inconclusive'] or r['not_encoded'] else '')), flush=True)
    results.sort(key=lambda r: r['unit'])
    from symx import report
    code = report.finish(pid, a.tier, seed, mod, units, results, time.time() - t0, load_known(pid),
                         write=not a.no_evidence and not a.unit)
    return code


if __name__ == '__main__':
    sys.exit(main())
