"""./check <ID> --tier quick|thorough [--replay file] [--unit substr] [--jobs N]"""
import argparse
import importlib
import json
import multiprocessing as mp
import os
import sys
import time

VERIF = os.path.dirname(os.path.dirname(os.path.abspath(__file__)))
EXIT_OK, EXIT_VIOLATION, EXIT_INCONCLUSIVE = 0, 1, 2


class UnitTimeout(BaseException):
    pass


def _alarm(signum, frame):
    raise UnitTimeout()


def _unit_limit(unit, tier):
    """wall-clock limit of one unit in seconds; stretched (up to 4x) when the machine is busier
    than its core count, so that foreign load does not turn units inconclusive"""
    limit = int(unit.opts.get('unit_timeout', 150 if tier == 'quick' else 900))
    try:
        load = os.getloadavg()[0] / float(os.cpu_count() or 1)
    except (OSError, AttributeError):
        load = 1.0
    return int(limit * max(1.0, min(4.0, load)))


def _worker(args):
    unit, tier, seed = args
    import resource
    import signal
    import symx
    symx.load_algopy()
    from symx import runner
    limit = _unit_limit(unit, tier)
    try:
        mem = int(unit.opts.get('unit_mem_gb', 6)) << 30
        resource.setrlimit(resource.RLIMIT_AS, (mem, mem))
    except (ValueError, OSError):
        pass
    signal.signal(signal.SIGALRM, _alarm)
    signal.alarm(limit)
    try:
        return runner.run_unit(unit, tier, seed)
    except UnitTimeout:
        r = runner.new_result(unit)
        r['inconclusive'].append('%s: unit time limit %ds exceeded (never a pass)' % (unit.name, limit))
        # the symbolic run did not finish (a change can make the symbolic execution diverge, e.g. a
        # loop whose exit test became symbolic): still give the float oracle a chance to show a
        # concrete failing input
        try:
            import random
            import zlib
            from symx import sym as S
            S.set_ctx(None)
            signal.alarm(60)
            v = runner.numeric_confirm(unit, random.Random(zlib.crc32(unit.name.encode()) ^ seed))
            if v is not None:
                r['violations'].append(v)
        except BaseException:
            pass
        return r
    except MemoryError:
        r = runner.new_result(unit)
        r['inconclusive'].append('%s: unit memory limit exceeded (never a pass)' % unit.name)
        return r
    except BaseException as e:        # path-steering exceptions are BaseException
        import traceback
        r = runner.new_result(unit)
        r['inconclusive'].append('%s: worker crashed: %s: %s' % (unit.name, type(e).__name__, str(e)[:300]))
        r['notes'].append(traceback.format_exc()[-1500:])
        return r
    finally:
        signal.alarm(0)


def _float_only(args):
    """fallback for a unit whose symbolic run killed its process (crash / hard hang inside C
    code): the float oracle alone, at random points, in a fresh process"""
    unit, tier, seed = args
    import random
    import zlib
    import symx
    symx.load_algopy()
    from symx import runner
    r = runner.new_result(unit)
    rng = random.Random(zlib.crc32(unit.name.encode()) ^ seed)
    v = runner.numeric_confirm(unit, rng)
    if v is not None:
        r['violations'].append(v)
    return r


def _child(fn, job, conn):
    try:
        conn.send(fn(job))
    except BaseException as e:
        try:
            conn.send({'__error__': '%s: %s' % (type(e).__name__, str(e)[:300])})
        except Exception:
            pass
    finally:
        conn.close()


def run_jobs(jobs, njobs, verbose=False):
    """one forked process per unit (no state leaks from one unit into the next); a process that
    dies (segfault) or hangs inside C code (no signal delivery) is killed after a hard limit and
    the unit becomes inconclusive -- after a float-only retry that may still confirm a violation"""
    import symx
    symx.load_algopy()
    from symx import runner
    ctxm = mp.get_context('fork')
    pending = list(jobs)[::-1]
    running = {}
    results = []

    def launch(fn, job, retry):
        parent, child = ctxm.Pipe(duplex=False)
        p = ctxm.Process(target=_child, args=(fn, job, child))
        p.start()
        child.close()
        unit, tier, seed = job
        limit = _unit_limit(unit, tier)
        running[p.pid] = (p, parent, job, time.time() + limit + 45, retry)

    def failed(job, why, retry):
        unit = job[0]
        if not retry and 'hard time limit' not in why:
            # a worker that vanished without a result (seen once on a heavily loaded machine, the
            # same unit passes when run again): one more full symbolic attempt first
            launch(_worker, job, 'again: ' + why)
            return
        if not retry or retry.startswith('again: '):
            launch(_float_only, job, why if not retry else retry[len('again: '):] + '; second attempt: ' + why)
            return
        r = runner.new_result(unit)
        r['inconclusive'].append('%s: %s (never a pass); float-only retry: %s' % (unit.name, retry, why))
        results.append(r)

    while pending or running:
        while pending and len(running) < njobs:
            launch(_worker, pending.pop(), None)
        done = []
        for pid_, (p, conn, job, deadline, retry) in list(running.items()):
            got = None
            if conn.poll(0) or (not p.is_alive() and conn.poll(0.2)):      # (a finished child may have sent its result just now)
                try:
                    got = conn.recv()
                except (EOFError, OSError):
                    got = None
                p.join(5)
                if p.is_alive():
                    p.kill()
                done.append(pid_)
                if isinstance(got, dict) and '__error__' not in got:
                    if retry and not retry.startswith('again: '):
                        # result of the float-only retry after a crash / hang of the symbolic run
                        if not got['violations']:
                            got['inconclusive'].append('%s: %s (never a pass); float oracle at random points found no discrepancy'
                                                       % (job[0].name, retry))
                    results.append(got)
                    if verbose:
                        r = got
                        print('  %-60s paths=%d obl=%d syn=%d dis=%d %.1fs %s' % (
                            r['unit'], r['paths'], r['obligations'], r['syntactic'], r['discharged'], r['wall_s'],
                            'VIOL' if r['violations'] else ('INC' if r['inconclusive'] or r['not_encoded'] else '')), flush=True)
                else:
                    failed(job, 'worker error %s' % (got or {}).get('__error__', 'no result'), retry)
            elif not p.is_alive():
                done.append(pid_)
                failed(job, 'worker process died (exit code %s)' % p.exitcode, retry)
            elif time.time() > deadline:
                p.kill()
                p.join(5)
                done.append(pid_)
                failed(job, 'worker process killed after the hard time limit', retry)
        for d in done:
            p, conn, job, deadline, retry = running.pop(d)
            try:
                conn.close()
            except Exception:
                pass
        if not done:
            time.sleep(0.01)
    return results


def load_known(pid):
    """known_findings.txt: lines 'finding: property=<id> unit=<unit name> :: <what fails>'
    and 'fixed: property=<id> <commit> <what failed>' (fixed entries suppress nothing)"""
    out = []
    path = os.path.join(VERIF, 'known_findings.txt')
    if not os.path.exists(path):
        return out
    for line in open(path):
        line = line.strip()
        if not line.startswith('finding:'):
            continue
        body = line[len('finding:'):].strip()
        if ('property=%s ' % pid) not in body + ' ':
            continue
        unit = None
        for tok in body.split(' :: ')[0].split():
            if tok.startswith('unit='):
                unit = tok[5:]
        out.append({'unit': unit, 'text': body})
    return out


def replay(pid, path):
    import symx
    symx.load_algopy()
    from symx import runner
    d = json.load(open(path))
    unit = runner.Unit(d['unit'], d['module'], d['func'], _unjson_kwargs(d['module'], d['func'], d['kwargs']),
                       {'property': d.get('property')})
    fctx, st = runner.run_float(unit, d['assignment'])
    if st != 'ok':
        print('replay: point rejected by the harness preconditions')
        return EXIT_INCONCLUSIVE
    if fctx.float_failures:
        for f in fctx.float_failures[:10]:
            print('replay: %s: %s' % (f[0], f[1]))
        print('VIOLATION property=%s replay=%s' % (pid, path))
        return EXIT_VIOLATION
    print('replay: no discrepancy on the current tree')
    return EXIT_OK


def _unjson_kwargs(module, func, kw):
    # tuples were stored as lists
    def fix(v):
        if isinstance(v, list):
            return tuple(fix(x) for x in v)
        if isinstance(v, dict):
            return {k: fix(x) for k, x in v.items()}
        return v
    return {k: fix(v) for k, v in kw.items()}


def main(argv=None):
    ap = argparse.ArgumentParser()
    ap.add_argument('pid')
    ap.add_argument('--tier', default=os.environ.get('VERIF_TIER', 'quick'))
    ap.add_argument('--replay')
    ap.add_argument('--unit', default=None, help='only units whose name contains this')
    ap.add_argument('--jobs', type=int, default=int(os.environ.get('VERIF_JOBS', '0')) or min(16, os.cpu_count() or 4))
    ap.add_argument('--no-evidence', action='store_true')
    ap.add_argument('-v', action='store_true')
    a = ap.parse_args(argv)
    pid = a.pid.upper()
    seed = int(os.environ.get('VERIF_SEED', '0') or 0)
    if a.replay:
        return replay(pid, a.replay)
    t0 = time.time()
    mod = importlib.import_module('symx.props.' + pid.lower())
    units = mod.units(a.tier, seed)
    if a.unit:
        units = [u for u in units if a.unit in u.name]
    # biggest first
    jobs = [(u, a.tier, seed) for u in units]
    results = []
    results = run_jobs(jobs, max(1, a.jobs), verbose=a.v)
    results.sort(key=lambda r: r['unit'])
    from symx import report
    code = report.finish(pid, a.tier, seed, mod, units, results, time.time() - t0, load_known(pid),
                         write=not a.no_evidence and not a.unit)
    return code


if __name__ == '__main__':
    sys.exit(main())
