"""Run one unit: explore every feasible path of a harness symbolically, decide
its obligations with z3, validate the symbolic layer against the unpatched
float code, replay counterexamples on the real float code."""
import importlib
import json
import hashlib
import math
import os
import random
import sys
import time
import traceback
import zlib
from fractions import Fraction

import numpy as np

from . import sym as S
from . import npx
from . import stubs
from . import engine as E
from .engine import Ctx, Smt, Infeasible, Inconclusive, SkipPoint, HarnessError

VERIF = os.path.dirname(os.path.dirname(os.path.abspath(__file__)))
REPLAY_DIR = os.path.join(VERIF, 'replays')


DEFINEDNESS_DEFAULT = os.environ.get('SYMX_DEFINEDNESS', '1') == '1'


class Unit(object):
    """picklable description of one harness invocation"""

    def __init__(self, name, module, func, kwargs=None, opts=None):
        self.name = name
        self.module = module
        self.func = func
        self.kwargs = kwargs or {}
        self.opts = opts or {}

    def harness(self):
        mod = importlib.import_module(self.module)
        return getattr(mod, self.func)

    def describe(self):
        return {'unit': self.name, 'module': self.module, 'func': self.func, 'kwargs': _jsonable(self.kwargs)}


def _jsonable(x):
    if isinstance(x, dict):
        return {str(k): _jsonable(v) for k, v in x.items()}
    if isinstance(x, (list, tuple)):
        return [_jsonable(v) for v in x]
    if isinstance(x, Fraction):
        return str(x)
    if isinstance(x, (np.integer,)):
        return int(x)
    if isinstance(x, (np.floating,)):
        return float(x)
    if isinstance(x, (int, float, str, bool)) or x is None:
        return x
    if isinstance(x, slice):
        return 'slice(%s,%s,%s)' % (x.start, x.stop, x.step)
    return repr(x)


# ---------------------------------------------------------------------------

class _Profiler(object):
    """collect the repository functions executed during a symbolic run"""

    def __init__(self, root):
        self.root = os.path.realpath(root) + os.sep
        self.seen = set()

    def __call__(self, frame, event, arg):
        if event == 'call':
            fn = frame.f_code.co_filename
            if fn.startswith(self.root) and '/tests/' not in fn:
                self.seen.add('%s:%s' % (fn[len(self.root):], frame.f_code.co_name))


def eval_bool(b, val):
    if b is True or b is False:
        return b
    if b.op in ('<', '<=', '==', '!='):
        l, r = val[b.l.id], val[b.r.id]
        return {'<': l < r, '<=': l <= r, '==': l == r, '!=': l != r}[b.op]
    if b.op == 'not':
        return not eval_bool(b.l, val)
    if b.op == 'and':
        return eval_bool(b.l, val) and eval_bool(b.r, val)
    if b.op == 'or':
        return eval_bool(b.l, val) or eval_bool(b.r, val)
    raise ValueError(b.op)


def bool_nodes(b, acc):
    if b is True or b is False:
        return
    if b.op in ('<', '<=', '==', '!='):
        acc.append(b.l)
        acc.append(b.r)
    else:
        bool_nodes(b.l, acc)
        if b.r is not None:
            bool_nodes(b.r, acc)


def atom_axioms(smt):
    """cheap true facts about the uninterpreted atoms that occur in a script"""
    out = []
    by = {}
    same = {}
    for nm, n in list(smt.decl.items()):
        if n.op == 'app':
            by.setdefault(tuple(t.id for t in n.a[2:]), {})[n.a[0]] = (nm, n)
            same.setdefault((n.a[0], n.a[1], len(n.a)), []).append((nm, n))
    # functional consistency (Ackermann): equal arguments -> equal values, for atoms whose
    # arguments are different terms (e.g. x/(1+x*x) built by UTPM arithmetic vs by numpy)
    npairs = 0
    for key, lst in same.items():
        for i in range(len(lst)):
            for j in range(i):
                if npairs >= 60:
                    break
                (n1, a1), (n2, a2) = lst[i], lst[j]
                conds = []
                for s1, s2 in zip(a1.a[2:], a2.a[2:]):
                    if s1 is not s2:
                        conds.append(smt.boolean(S.BoolSym('==', s1, s2)))
                if conds:
                    out.append('(=> (and %s true) (= %s %s))' % (' '.join(conds), n1, n2))
                    npairs += 1
    for key, d in by.items():
        if 'exp' in d:
            out.append('(> %s 0)' % d['exp'][0])
        if 'exp2' in d:
            out.append('(> %s 0)' % d['exp2'][0])
        if 'cosh' in d:
            out.append('(>= %s 1)' % d['cosh'][0])
        if 'pow' in d:
            out.append('(> %s 0)' % d['pow'][0])
        if 'sqrt' in d:
            nm, n = d['sqrt']
            out.append('(> %s 0)' % nm)
            num, den = smt.nf.of(n.a[2])
            if not den:
                out.append('(= (* %s %s) %s)' % (nm, nm, smt.term(num)))
        if 'sin' in d and 'cos' in d:
            s, c = d['sin'][0], d['cos'][0]
            out.append('(= (+ (* %s %s) (* %s %s)) 1)' % (s, s, c, c))
        elif 'sin' in d:
            out.append('(and (<= (- 1) %s) (<= %s 1))' % (d['sin'][0], d['sin'][0]))
        elif 'cos' in d:
            out.append('(and (<= (- 1) %s) (<= %s 1))' % (d['cos'][0], d['cos'][0]))
        if 'tan' in d and 'cos' in d:
            t, c = d['tan'][0], d['cos'][0]
            out.append('(= (* (+ 1 (* %s %s)) (* %s %s)) 1)' % (t, t, c, c))
            if 'sin' in d:
                out.append('(= (* %s %s) %s)' % (t, c, d['sin'][0]))
        if 'sinh' in d and 'cosh' in d:
            s, c = d['sinh'][0], d['cosh'][0]
            out.append('(= (- (* %s %s) (* %s %s)) 1)' % (c, c, s, s))
        if 'tanh' in d:
            out.append('(and (< (- 1) %s) (< %s 1))' % (d['tanh'][0], d['tanh'][0]))
        if 'erf' in d:
            out.append('(and (< (- 1) %s) (< %s 1))' % (d['erf'][0], d['erf'][0]))
        if 'expit' in d:
            out.append('(and (< 0 %s) (< %s 1))' % (d['expit'][0], d['expit'][0]))
            if 'exp' in d:
                out.append('(= (* %s (+ 1 %s)) %s)' % (d['expit'][0], d['exp'][0], d['exp'][0]))
    return out


class PathResult(object):
    pass


def _random_point(ctx, rng, tries=60):
    """a float point satisfying assumptions, path condition and definedness"""
    nodes = []
    for b in ctx.assumptions + ctx.path:
        bool_nodes(b, nodes)
    nodes.extend(ctx.divisors.values())
    nodes.extend(ctx.positives.values())
    names = list(ctx.var_order)
    for t in range(tries):
        env = {}
        for nm in names:
            env[nm] = rng.choice([-1, 1]) * (0.2 + 1.6 * rng.random()) if t % 2 == 0 else (0.15 + 0.8 * rng.random())
        try:
            for nm, fn in ctx.derived:
                env[nm] = fn(env)
            val = E.evaluate(nodes, env)
            ok = all(eval_bool(b, val) for b in ctx.assumptions + ctx.path)
            ok = ok and all(abs(val[d.id]) > 1e-3 for d in ctx.divisors.values())
            ok = ok and all(val[d.id] > 1e-3 for d in ctx.positives.values())
        except (ValueError, ZeroDivisionError, OverflowError, KeyError):
            ok = False
        if ok:
            return env
    return None


class LazyAssignment(dict):
    """assignment that invents a value in (0.15, 0.85) for names it has not seen"""

    def __init__(self, rng, base=None):
        dict.__init__(self, base or {})
        self.rng = rng

    def __contains__(self, k):
        return True

    def __getitem__(self, k):
        if not dict.__contains__(self, k):
            self[k] = 0.15 + 0.7 * self.rng.random()
        return dict.__getitem__(self, k)


def run_float(unit, assignment, opts=None):
    """run the harness on the unpatched float code at a point"""
    S.set_ctx(None)
    ctx = Ctx('float', assignment=assignment, opts=dict(unit.opts, **(opts or {})))
    ctx.float_vals = {}
    try:
        with np.errstate(all='ignore'):
            unit.harness()(ctx, **unit.kwargs)
    except SkipPoint:
        return None, 'skip'
    except HarnessError as e:
        return None, 'harness-error: %s' % e
    except Exception as e:
        tb = traceback.format_exc().strip().splitlines()
        ctx.float_failures.append(('exception', '%s: %s | %s' % (type(e).__name__, str(e)[:200],
                                                                 ' <- '.join(l.strip() for l in tb[-5:-1])[:400])))
        return ctx, 'raised'
    return ctx, 'ok'


def witness_env(ctx, rng):
    """a point satisfying the assumptions collected so far (z3 model), or None"""
    try:
        save = S.current_ctx()
        S.set_ctx(None)
        smt = Smt(ctx.nf)
        base = ctx._base_asserts(smt)
        r, model, dt = E.z3_check(smt.script(base + atom_axioms(smt)), ctx.timeout_ms, want_model=True)
        S.set_ctx(save)
        if r != 'sat':
            return None
        env = _model_assignment(ctx, smt, model, rng)
        return env
    except Exception:
        return None


def numeric_confirm(unit, rng, first_env=None, points=3, extra_envs=()):
    """degraded / safety-net mode: the float oracle at random points.  Returns a
    violation record if the real float code disagrees with the oracle at the
    first point AND at a second independent point."""
    bad = []
    tried = 0
    envs = [first_env] if first_env is not None else []
    near = 0
    if first_env is not None:
        # independent second opinions near the failing point (narrow preconditions make uniformly
        # random points fall outside the domain): the same point perturbed by 1 %, 5 %, 20 %
        for rel in (0.01, 0.05, 0.2):
            envs.append(LazyAssignment(rng, {k: (v * (1 + rel * (2 * rng.random() - 1)) if isinstance(v, float) else v)
                                             for k, v in dict(first_env).items()}))
    envs.extend(LazyAssignment(rng, e) for e in extra_envs if e is not None)
    extra_n = (3 if first_env is not None else 0) + len(extra_envs)
    near = 3 if first_env is not None else 0
    tol = max(1e-6, float(unit.opts.get('float_tol', 0) or 0))
    while tried < points + 4 + extra_n and len(bad) < 2:
        tried += 1
        is_neighbour = first_env is not None and 1 < tried <= 1 + near
        env = envs.pop(0) if envs else LazyAssignment(rng)
        fctx, st = run_float(unit, env, {'float_tol': tol})
        if fctx is None:
            continue
        if fctx.float_failures:
            if is_neighbour and not any(_gross_failure(f) for f in fctx.float_failures):
                # a nearby point is no independent evidence for a discrepancy at rounding /
                # conditioning level (finite-difference oracles near the edge of a domain)
                continue
            bad.append((dict(env), list(fctx.float_failures)))
        elif first_env is not None and not bad:
            return None
        elif tried >= points and not bad:
            return None
    if len(bad) >= 2:
        env, fails = bad[0]
        return _write_replay(unit, env, fails, fails[0][0] + ' (numeric oracle on the float code)')
    return None


def _model_assignment(ctx, smt, model, rng):
    env = {}
    inv = {}
    for nm, n in smt.decl.items():
        if n.op == 'var' and not n.a[0].startswith('@'):
            inv[n.a[0]] = nm
    for name in ctx.var_order:
        nm = inv.get(name)
        if nm is not None and model is not None and nm in model:
            env[name] = float(model[nm])
        else:
            env[name] = 0.37 + 0.21 * rng.random()
    return env


def decide_path(unit, ctx, res, rng, tier):
    """decide all obligations queued on this path"""
    nf = ctx.nf
    timeout = ctx.timeout_ms
    pending = []
    for label, l, r in ctx.obligations:
        res['obligations'] += 1
        if l is r:
            res['syntactic'] += 1
            continue
        cl, cr, L = nf.cross(l, r)
        if cl is cr:
            res['syntactic'] += 1
            continue
        pending.append((label, cl, cr, l, r))
    for label, b in ctx.checks:
        res['obligations'] += 1
        pending.append((label, b, None, None, None))
    for label, script, on_sat in ctx.raw_obligations:
        res['obligations'] += 1
        t0 = time.time()
        sol = E.z3.Solver()
        sol.set('timeout', int(timeout))
        sol.from_string(script)
        r = str(sol.check())
        res['queries'] += 1
        res['solver_s'] += time.time() - t0
        if r == 'unsat':
            res['discharged'] += 1
        elif r == 'sat':
            m = sol.model()
            model = {dd.name(): str(m[dd]) for dd in m.decls()}
            if on_sat is None or on_sat(model):
                res['violations'].append(_write_replay(unit, {'smt_model': model}, [[label, 'solver model %s' % model]], label))
            else:
                res['inconclusive'].append('%s: %s: sat model not confirmed on the real code' % (unit.name, label))
        else:
            res['inconclusive'].append('%s: %s: solver unknown' % (unit.name, label))
    for label, ok in ctx.facts:
        res['facts'] += 1
        if not ok:
            res['fact_failures'].append('%s: %s' % (unit.name, label))
    if not pending:
        return

    def neg(item, smt):
        label, a, b, _, _ = item
        if b is None:
            return smt.boolean(a.negate())
        return '(not (= %s %s))' % (smt.term(a), smt.term(b))

    # one batched query first
    smt = Smt(nf)
    base = ctx._base_asserts(smt)
    negs = [neg(it, smt) for it in pending]
    ax = atom_axioms(smt)
    script = smt.script(base + ax + ['(or %s)' % ' '.join(negs) if len(negs) > 1 else negs[0]])
    r, model, dt = E.z3_check(script, timeout, want_model=False)
    res['queries'] += 1
    res['solver_s'] += dt
    if r == 'unsat':
        res['discharged'] += len(pending)
        if unit.opts.get('crosscheck', True) and (tier == 'thorough' or rng.random() < 0.15) \
                and res.get('crosscheck_batches', 0) < unit.opts.get('crosscheck_max', 6):
            # (at most crosscheck_max batches per unit go to the two external solvers: units with
            # dozens of pivot paths would otherwise spend their whole time budget there)
            res['crosscheck_batches'] = res.get('crosscheck_batches', 0) + 1
            _crosscheck(script, res, unit, 'batch[%d]' % len(pending))
        return
    # individually
    for it in pending:
        if res['violations']:
            res['skipped_after_violation'] += 1
            continue
        smt = Smt(nf)
        base = ctx._base_asserts(smt)
        ng = neg(it, smt)
        ax = atom_axioms(smt)
        blocked = []
        outcome = None
        for attempt in range(4):
            script = smt.script(base + ax + [ng] + blocked)
            r, model, dt = E.z3_check(script, timeout, want_model=True)
            res['queries'] += 1
            res['solver_s'] += dt
            if r == 'unsat':
                outcome = 'unsat' if attempt == 0 else 'nonrepro'
                break
            if r != 'sat':
                outcome = 'unknown'
                break
            env = _model_assignment(ctx, smt, model, rng)
            if os.environ.get('SYMX_DEBUG_MODEL'):
                print('DEBUG sat model for', it[0], {k: str(v) for k, v in model.items()}, file=sys.stderr)
            fctx, st = run_float(unit, env)
            fails = [] if fctx is None else [f for f in fctx.float_failures]
            if st == 'ok' and fails:
                outcome = 'violation'
                res['violations'].append(_write_replay(unit, env, fails, it[0]))
                break
            # block this model on the variables it mentions and retry
            cl = []
            for nm, n in smt.decl.items():
                if n.op == 'var' and nm in model:
                    cl.append('(not (= %s %s))' % (nm, E._rat(model[nm])))
            if not cl:
                outcome = 'nonrepro'
                break
            blocked.append('(or %s)' % ' '.join(cl) if len(cl) > 1 else cl[0])
            outcome = 'nonrepro'
        if outcome == 'unsat':
            res['discharged'] += 1
        elif outcome == 'violation':
            pass
        elif outcome == 'unknown':
            res['inconclusive'].append('%s: %s: solver unknown/timeout' % (unit.name, it[0]))
        else:
            res['inconclusive'].append('%s: %s: sat model(s) did not reproduce on the float code '
                                       '(stub/atom freedom or rounding-level)' % (unit.name, it[0]))


def check_definedness(unit, ctx, res, rng):
    """every division performed by a line of the implementation on this path has a divisor
    that cannot vanish where the specification is defined (stated assumptions, path
    condition, and non-vanishing divisors of the oracle / of the numpy.linalg stand-ins).
    A satisfiable `divisor = 0` is replayed on the float code and reported only if the
    real code then yields nan/inf (or ZeroDivisionError) where the oracle value is finite."""
    nf = ctx.nf
    seen = set()
    spec = [d for d in ctx.divisors.values() if ctx.divisor_kind.get(d.id) != 'code']
    for d in list(ctx.divisors.values()):
        if ctx.divisor_kind.get(d.id) != 'code':
            continue
        n, _dd = nf.of(d)
        if n.op == 'const' or n.id in seen:
            continue
        seen.add(n.id)
        res['definedness_queries'] = res.get('definedness_queries', 0) + 1
        smt = Smt(nf)
        base = ctx._base_asserts(smt, divisors=False)
        for sd in spec:
            sn, _ = nf.of(sd)
            if sn.op != 'const':
                base.append('(not (= %s 0))' % smt.term(sn))
        ax = atom_axioms(smt)
        script = smt.script(base + ax + ['(= %s 0)' % smt.term(n)])
        r, model, dt = E.z3_check(script, min(ctx.timeout_ms, 20000), want_model=True)
        res['queries'] += 1
        res['solver_s'] += dt
        if r == 'unsat':
            res['definedness_discharged'] = res.get('definedness_discharged', 0) + 1
            continue
        if r != 'sat':
            res['definedness_unknown'] = res.get('definedness_unknown', 0) + 1
            continue
        env = _model_assignment(ctx, smt, model, rng)
        fctx, st = run_float(unit, env)
        fails = [] if fctx is None else [f for f in fctx.float_failures if _nonfinite_failure(f)]
        if fails:
            res['violations'].append(_write_replay(unit, env, fails, 'definedness: a divisor vanishes inside the stated domain'))
            return
        # the code divided by zero and still returned finite numbers (a masked 0/0): are they right?
        hit = _finite_but_wrong(unit, ctx, n, env, rng)
        if hit is not None:
            res['violations'].append(_write_replay(unit, hit[0], hit[1], 'definedness: a divisor vanishes inside the stated domain and '
                                                   'the (finite) result there is wrong'))
            return
        res['definedness_benign'] = res.get('definedness_benign', 0) + 1
    # arguments of log / sqrt / real powers taken by the code must be positive on the domain
    seen = set()
    for d in list(ctx.positives.values()):
        if ctx.positive_kind.get(d.id) != 'code' or d.id in seen:
            continue
        seen.add(d.id)
        res['definedness_queries'] = res.get('definedness_queries', 0) + 1
        smt = Smt(nf)
        base = ctx._base_asserts(smt, divisors=False)
        for sd in spec:
            sn, _ = nf.of(sd)
            if sn.op != 'const':
                base.append('(not (= %s 0))' % smt.term(sn))
        ax = atom_axioms(smt)
        script = smt.script(base + ax + [smt.boolean(d <= 0)])
        r, model, dt = E.z3_check(script, min(ctx.timeout_ms, 20000), want_model=True)
        res['queries'] += 1
        res['solver_s'] += dt
        if r == 'unsat':
            res['definedness_discharged'] = res.get('definedness_discharged', 0) + 1
            continue
        if r != 'sat':
            res['definedness_unknown'] = res.get('definedness_unknown', 0) + 1
            continue
        env = _model_assignment(ctx, smt, model, rng)
        fctx, st = run_float(unit, env)
        fails = [] if fctx is None else [f for f in fctx.float_failures if _nonfinite_failure(f)]
        if fails:
            res['violations'].append(_write_replay(unit, env, fails, 'definedness: log/sqrt/real power of a non-positive value inside the stated domain'))
            return
        res['definedness_benign'] = res.get('definedness_benign', 0) + 1


def _vars_of(n, acc=None):
    acc = set() if acc is None else acc
    stack, seen = [n], set()
    while stack:
        m = stack.pop()
        if id(m) in seen:
            continue
        seen.add(id(m))
        if getattr(m, 'op', None) == 'var':
            acc.add(m.a[0])
        for c in getattr(m, 'a', ()):
            if hasattr(c, 'op'):
                stack.append(c)
    return acc


def _finite_but_wrong(unit, ctx, n, model_env, rng):
    """the code divided by zero at x* (divisor n = 0) and returned finite numbers.  Off the zero set
    of n the results are proven equal to the specification, which is continuous on the stated
    domain; so the value at x* is wrong iff the code's own output JUMPS there: for two step sizes
    eps and eps/2 away from x* (in the variables n mentions; all other variables re-sampled inside
    the domain) the distance to the value at x* does not shrink (ratio > 0.75, continuous: 0.5)
    and is gross (> 1e-3 relative).  Two independent re-samplings must both show it.  No oracle
    is involved, so finite-difference noise of the float oracles cannot raise this alarm."""
    names = sorted(nm for nm in _vars_of(n) if nm in model_env)
    if not names:
        return None
    found = None
    for t in range(2):
        base = _random_point(ctx, rng)
        if base is None:
            return None
        env0 = dict(base)
        for nm in names:
            env0[nm] = model_env[nm]
        u = dict((nm, rng.choice([-1.0, 1.0]) * (0.5 + rng.random())) for nm in names)
        runs = []
        for eps in (0.0, 1e-4, 5e-5):
            env = dict(env0)
            for nm in names:
                env[nm] = env0[nm] + eps * u[nm]
            try:
                for nm, fn in ctx.derived:
                    env[nm] = fn(env)
            except Exception:
                return None
            fctx, st = run_float(unit, env)
            if st != 'ok' or fctx is None:
                return None
            runs.append(dict(fctx.float_vals))
        v0, v1, v2 = runs
        jumps = []
        for lab, a in v0.items():
            if lab not in v1 or lab not in v2:
                continue
            b, c = v1[lab], v2[lab]
            if not (math.isfinite(a) and math.isfinite(b) and math.isfinite(c)):
                continue
            d1, d2 = abs(b - a), abs(c - a)
            if d1 > 1e-3 * max(1.0, abs(a), abs(b)) and d2 > 0.75 * d1:
                jumps.append((lab, 'index (): got %r expected %r (the limit from nearby points of the domain)' % (a, c)))
        if not jumps:
            return None
        found = (env0, jumps[:6])
    return found


def _gross_failure(f):
    """exception, failed structural fact, non-finite value, or a relative discrepancy > 1e-3"""
    label, text = f[0], str(f[1])
    if label == 'exception' or 'fact false' in text or 'shape' in text or 'nan' in text or 'inf' in text:
        return True
    import re
    m = re.search(r'got (.+?) expected (.+?)$', text.strip())
    if not m:
        return True
    try:
        g = complex(m.group(1).strip())
        e = complex(m.group(2).strip())
    except ValueError:
        return True
    return abs(g - e) > 1e-3 * max(1.0, abs(e))


def _nonfinite_failure(f):
    label, text = f[0], str(f[1])
    if label == 'exception':
        return text.startswith(('ZeroDivisionError', 'FloatingPointError'))
    got = text.split('expected')[0]
    return 'nan' in got or 'inf' in got


def _crosscheck(script, res, unit, what):
    for solver in ('z3old', 'cvc5'):
        t0 = time.time()
        r = E.external_check(script, solver, timeout_s=60)
        res['cross_s'] += time.time() - t0
        res['crosschecked'].setdefault(solver, {}).setdefault(r, 0)
        res['crosschecked'][solver][r] += 1
        if r == 'sat':
            res['inconclusive'].append('%s: %s: %s disagrees (sat) with z3 (unsat)' % (unit.name, what, solver))


def _write_replay(unit, env, fails, label):
    os.makedirs(REPLAY_DIR, exist_ok=True)
    d = dict(unit.describe())
    d['property'] = unit.opts.get('property')
    d['assignment'] = env
    d['label'] = label
    d['failures'] = [list(f) for f in fails[:10]]
    blob = json.dumps(d, sort_keys=True)
    h = hashlib.sha1(blob.encode()).hexdigest()[:10]
    path = os.path.join(REPLAY_DIR, '%s-%s.json' % (unit.opts.get('property', 'X'), h))
    with open(path, 'w') as f:
        f.write(json.dumps(d, indent=1, sort_keys=True))
    return {'unit': unit.name, 'label': label, 'replay': path, 'failures': d['failures'][:3]}


def validate_path(unit, ctx, res, rng):
    """translation validation: symbolic DAG evaluated at a random point vs the
    unpatched float code run at the same point"""
    env = _random_point(ctx, rng)
    if env is None:
        # narrow preconditions: fall back to a solver-found point of this path
        env = witness_env(ctx, rng)
        if env is not None:
            for nm, fn in ctx.derived:
                env[nm] = fn(env)
    if env is None:
        res['validation_skipped'] += 1
        return
    fctx, st = run_float(unit, env)
    if st == 'raised' and fctx is not None and fctx.float_failures:
        # the real float code raised where the symbolic run of the same harness completed:
        # never silently skipped -- confirmed at a second point this is a violation
        res['float_oracle_failures'].extend('%s: %s %s' % (unit.name, f[0], f[1]) for f in fctx.float_failures[:3])
        res['float_fail_points'].append((env, [list(f) for f in fctx.float_failures[:5]]))
        return
    if isinstance(st, str) and st.startswith('harness-error'):
        # the float run of the harness asked for a variable the symbolic run never created: the
        # two runs are not the same experiment (a harness defect, never silently skipped)
        res['inconclusive'].append('%s: float replay of the harness failed: %s' % (unit.name, st))
        return
    if st != 'ok':
        res['validation_skipped'] += 1
        return
    # the float run must agree with its own oracle too (cheap concrete test)
    if fctx.float_failures:
        res['float_oracle_failures'].extend(
            '%s: %s %s' % (unit.name, f[0], f[1]) for f in fctx.float_failures[:3])
        res['float_fail_points'].append((env, [list(f) for f in fctx.float_failures[:5]]))
    nodes = []
    for label, l, r in ctx.obligations:
        nodes.append(l)
    try:
        if unit.opts.get('exact_eval'):
            val = {}
            for k, v in E.evaluate(nodes, env, exact='hybrid').items():
                try:
                    val[k] = float(v)
                except OverflowError:
                    val[k] = float('inf')
        else:
            val = E.evaluate(nodes, env)
    except (ValueError, ZeroDivisionError, OverflowError, KeyError) as e:
        res['validation_skipped'] += 1
        return
    if getattr(ctx, 'fps', None) or getattr(fctx, 'fps', None):
        if ctx.fps != fctx.fps:
            for (la, va), (lb, vb) in zip(ctx.fps, fctx.fps):
                if (la, va) != (lb, vb):
                    res['validation_mismatch'].append('%s: structure differs between symbolic and float run: %s: %r vs %r' % (unit.name, la, va, vb))
                    break
            else:
                res['validation_mismatch'].append('%s: structure fingerprints differ in length' % unit.name)
    fv = fctx.float_vals if unit.opts.get('validate_values', True) else {}
    n = 0
    bad = 0
    for label, l, r in ctx.obligations:
        if label in fv:
            a = val[l.id]
            b = fv[label]
            if not (math.isfinite(a) and math.isfinite(b)):
                continue
            n += 1
            if not (abs(a - b) <= 1e-7 * max(1.0, abs(b))):
                bad += 1
                if len(res['validation_mismatch']) < 5:
                    res['validation_mismatch'].append('%s: %s sym=%r float=%r at %s' % (
                        unit.name, label, a, b, {k: round(v, 4) for k, v in list(env.items())[:6]}))
    res['validated_values'] += n
    if n:
        res['validated_traces'] += 1


def new_result(unit):
    return {
        'unit': unit.name, 'paths': 0, 'infeasible_paths': 0, 'obligations': 0, 'syntactic': 0,
        'discharged': 0, 'queries': 0, 'solver_s': 0.0, 'cross_s': 0.0, 'crosschecked': {},
        'facts': 0, 'fact_failures': [], 'violations': [], 'inconclusive': [],
        'not_encoded': [], 'validated_traces': 0, 'validated_values': 0,
        'validation_skipped': 0, 'validation_mismatch': [], 'float_oracle_failures': [],
        'float_fail_points': [],
        'functions': [], 'stubs': {}, 'events': [], 'sample': None, 'wall_s': 0.0,
        'notes': [], 'decisions': 0, 'skipped_after_violation': 0, 'twins': 0,
    }


def run_unit(unit, tier='quick', seed=0):
    t0 = time.time()
    res = new_result(unit)
    rng = random.Random(zlib.crc32(unit.name.encode()) ^ seed)
    harness = unit.harness()
    budget = unit.opts.get('path_budget', 64)
    work = [()]
    npx.STUBS_HIT.clear()
    del npx.EVENTS[:]
    first = True
    qstart = dict(E.SOLVER_STATS)
    while work:
        prefix = work.pop()
        if res['paths'] + res['infeasible_paths'] >= budget:
            res['inconclusive'].append('%s: path budget %d exhausted' % (unit.name, budget))
            break
        S.reset()
        stubs.clear()      # (registered factors are keyed by node ids, which start again with every path)
        ctx = Ctx('sym', prefix, opts=unit.opts)
        S.set_ctx(ctx)
        prof = None
        try:
            if first:
                prof = _Profiler(os.path.join(os.environ.get('ALGOPY_REPO', '/repo'), 'algopy'))
                sys.setprofile(prof)
            try:
                with npx.installed():
                    harness(ctx, **unit.kwargs)
            finally:
                if prof is not None:
                    sys.setprofile(None)
                    res['functions'] = sorted(prof.seen)
        except Infeasible:
            res['infeasible_paths'] += 1
            work.extend(ctx.forks)
            S.set_ctx(None)
            continue
        except Inconclusive as e:
            res['inconclusive'].append('%s: %s' % (unit.name, e))
            work.extend(ctx.forks)
            S.set_ctx(None)
            continue
        except Exception as e:
            tb = traceback.format_exc().strip().splitlines()
            res['not_encoded'].append('%s: %s: %s | %s' % (unit.name, type(e).__name__, str(e)[:300],
                                                          ' <- '.join(l.strip() for l in tb[-6:-1])[:600]))
            S.set_ctx(None)
            w = witness_env(ctx, rng)
            if w is not None:
                res.setdefault('witness_envs', []).append(w)
                res.setdefault('witness_envs', []).append({k: v * (1 + 0.01 * rng.random()) for k, v in w.items()})
            break
        first = False
        work.extend(ctx.forks)
        res['paths'] += 1
        res['decisions'] += len(ctx.decisions)
        res['notes'].extend(ctx.notes)
        try:
            # reachability witness for this path
            smt = Smt(ctx.nf)
            base = ctx._base_asserts(smt)
            r, model, dt = E.z3_check(smt.script(base + atom_axioms(smt)), ctx.timeout_ms, want_model=True)
            res['queries'] += 1
            res['solver_s'] += dt
            if r == 'unsat':
                res['inconclusive'].append('%s: precondition/path unsatisfiable (vacuous)' % unit.name)
                continue
            if r == 'sat' and res['sample'] is None:
                env = _model_assignment(ctx, smt, model, rng)
                res['sample'] = {'unit': unit.name, 'kwargs': _jsonable(unit.kwargs),
                                 'witness_input': {k: round(v, 6) for k, v in list(env.items())[:12]},
                                 'path': [repr(b) for b in ctx.path][:6],
                                 'first_obligation': (ctx.obligations[0][0] + ': ' + ctx.obligations[0][1].short(4)
                                                      + ' == ' + ctx.obligations[0][2].short(4)) if ctx.obligations else None}
            S.set_ctx(None)
            nfail = len(res['fact_failures'])
            decide_path(unit, ctx, res, rng, tier)
            if unit.opts.get('definedness', DEFINEDNESS_DEFAULT) and not res['violations']:
                check_definedness(unit, ctx, res, rng)
            if len(res['fact_failures']) > nfail and not res['violations']:
                # a concrete assertion failed on this symbolic path: replay at a point of this path
                for _ in range(2):
                    w = witness_env(ctx, rng)
                    if w is None:
                        break
                    fctx, st = run_float(unit, w)
                    if fctx is not None and fctx.float_failures:
                        res['violations'].append(_write_replay(unit, w, list(fctx.float_failures), fctx.float_failures[0][0]))
                        break
            if unit.opts.get('validate', True) and (res['paths'] <= unit.opts.get('validate_paths', 3)):
                validate_path(unit, ctx, res, rng)
        except Exception as e:
            tb = traceback.format_exc().strip().splitlines()
            res['inconclusive'].append('%s: checker error %s: %s | %s' % (
                unit.name, type(e).__name__, str(e)[:200], ' <- '.join(l.strip() for l in tb[-5:-1])[:500]))
        finally:
            S.set_ctx(None)
    S.set_ctx(None)
    if not res['violations']:
        if res['not_encoded'] or res['fact_failures']:
            v = numeric_confirm(unit, rng, extra_envs=res.get('witness_envs', ()))
            if v is not None:
                res['violations'].append(v)
        elif res['float_fail_points']:
            v = numeric_confirm(unit, rng, first_env=res['float_fail_points'][0][0])
            if v is not None:
                res['violations'].append(v)
            else:
                res['notes'].append('float oracle mismatch at one random point did not persist (conditioning)')
    res['stubs'] = dict(npx.STUBS_HIT)
    res['events'] = list(npx.EVENTS[:20])
    res['wall_s'] = time.time() - t0
    S.reset()
    stubs.clear()
    return res
