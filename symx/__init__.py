"""symx: symbolic execution of the real algopy code over object arrays (see /verif/DESIGN.md)"""
import os
import sys

REPO = os.environ.get('ALGOPY_REPO', '/repo')
_algopy = None


def load_algopy():
    """import algopy from the working tree (not the stale copy in site-packages),
    with the scipy.special dispatch wrappers installed first"""
    global _algopy
    if _algopy is not None:
        return _algopy
    from . import npx
    npx.install_special_wrappers()
    if REPO in sys.path:
        sys.path.remove(REPO)
    sys.path.insert(0, REPO)
    import algopy
    assert os.path.realpath(algopy.__file__).startswith(os.path.realpath(REPO)), algopy.__file__
    from . import stubs  # registers the LU model / contract stubs
    _algopy = algopy
    return algopy
