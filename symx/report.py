"""aggregate unit results -> stdout lines, exit code, evidence file"""
import json
import os
import subprocess

VERIF = os.path.dirname(os.path.dirname(os.path.abspath(__file__)))

COMMON_ASSUMPTIONS = [
    'floats are read as reals: every float operation on symbolic data is the exact real operation; '
    'rounding, overflow, NaN/inf are outside the claim',
    'float constants in the code are snapped to the real they stand for (small-denominator rationals, '
    'rational multiples of powers of pi, ln2, ln10, sqrt2, 1/sqrt(pi); otherwise exact binary value)',
    'in the equality queries every divisor met on an executed path is assumed non-zero and every log/sqrt/real-power '
    'argument positive; separate definedness queries then show that no divisor / log / sqrt / power argument used by a '
    'line of the implementation can vanish (be non-positive) where the stated domain and the specification side are '
    'defined (sat models are replayed on the float build and reported when the real code yields nan/inf there)',
    'bounds (D, P, shapes, program/history length, matrix sizes) are the concrete values listed in coverage.bounds; '
    'nothing outside them is claimed',
    'numpy itself (object-dtype loops, indexing, broadcasting) and z3 are trusted',
    'pytpcore C fast path is not installed and not analysed',
]


def _match_known(v, known):
    for k in known:
        if k['unit'] and (v['unit'] == k['unit'] or v['unit'].startswith(k['unit'])):
            return k
    return None


def measured_bounds(units):
    """the bounds of this run, read off the units that were executed: for every harness the
    range of each integer parameter (D = number of Taylor coefficients, P = directions, sizes,
    orders, lengths) and the set of values of every other parameter (shapes, kinds, names; at
    most 12 listed).  Everything outside these ranges is outside the claim."""
    per = {}
    for u in units:
        h = per.setdefault(u.func, {'units': 0, 'params': {}})
        h['units'] += 1
        for k, v in (u.kwargs or {}).items():
            h['params'].setdefault(k, []).append(v)
    out = {}
    for func, h in sorted(per.items()):
        d = {'units': h['units']}
        for k, vals in sorted(h['params'].items()):
            if all(isinstance(v, (int,)) and not isinstance(v, bool) for v in vals):
                d[k] = {'min': min(vals), 'max': max(vals)}
            else:
                seen = []
                for v in vals:
                    r = repr(v)
                    if r not in seen:
                        seen.append(r)
                d[k] = {'distinct': len(seen), 'values': seen[:12]}
        out[func] = d
    return {'per_harness': out, 'unit_time_limit_s': sorted(set(int(u.opts.get('unit_timeout', 0)) for u in units if u.opts.get('unit_timeout'))) or 'default (150 quick / 900 thorough)'}


def finish(pid, tier, seed, mod, units, results, wall, known, write=True):
    tot = lambda key: sum(r[key] for r in results)
    violations = [v for r in results for v in r['violations']]
    inconclusive = [m for r in results for m in r['inconclusive']]
    not_encoded = [m for r in results for m in r['not_encoded']]
    mismatch = [m for r in results for m in r['validation_mismatch']]
    fact_fail = [m for r in results for m in r['fact_failures']]
    functions = sorted(set(f for r in results for f in r['functions']))
    stubs = {}
    for r in results:
        for k, v in r['stubs'].items():
            stubs[k] = stubs.get(k, 0) + v
    cross = {}
    for r in results:
        for s, d in r['crosschecked'].items():
            for k, v in d.items():
                cross.setdefault(s, {}).setdefault(k, 0)
                cross[s][k] += v

    new_viol, known_hit = [], []
    for v in violations:
        k = _match_known(v, known)
        (known_hit if k else new_viol).append((v, k))
    # a unit that reproduces a listed finding is accounted for by its KNOWN-FINDING line
    known_units = set(v['unit'] for v, k in known_hit)
    def _keep(msgs):
        return [m for m in msgs if not any(m.startswith(u + ':') for u in known_units)]
    inconclusive, not_encoded, mismatch, fact_fail = _keep(inconclusive), _keep(not_encoded), _keep(mismatch), _keep(fact_fail)

    print('%s tier=%s seed=%d: %d units, %d paths, %d obligations (%d closed syntactically by hash-consing/normal form, '
          '%d discharged unsat by z3, %d solver queries, %.1fs solver), %d structural facts, '
          '%d traces validated against the float build; wall %.1fs' % (
              pid, tier, seed, len(results), tot('paths'), tot('obligations'), tot('syntactic'), tot('discharged'),
              tot('queries'), tot('solver_s'), tot('facts'), tot('validated_traces'), wall))
    for m in not_encoded[:20]:
        print('NOT-ENCODED %s' % m)
    for m in inconclusive[:30]:
        print('INCONCLUSIVE %s' % m)
    for m in mismatch[:10]:
        print('ENCODING-MISMATCH %s' % m)
    for m in fact_fail[:10]:
        print('FACT-FAILED %s' % m)
    seen = set()
    for v, k in known_hit:
        if k['text'] in seen:
            continue
        seen.add(k['text'])
        print('KNOWN-FINDING: property=%s %s' % (pid, k['text'].split(' :: ', 1)[-1] if ' :: ' in k['text'] else k['text']))
    for v, k in new_viol:
        print('  unit=%s obligation=%s %s' % (v['unit'], v['label'], v['failures'][:1]))
        print('VIOLATION property=%s replay=%s' % (pid, v['replay']))

    if new_viol:
        code = 1
    elif inconclusive or not_encoded or mismatch or fact_fail:
        code = 2
    else:
        code = 0

    if write:
        samples = [r['sample'] for r in results if r['sample']][:8]
        if not samples:
            samples = [{'unit': r['unit']} for r in results[:3]]
        bounds = measured_bounds(units)
        bounds.update(getattr(mod, 'bounds', lambda t: {})(tier))
        try:
            head = subprocess.run(['git', '-C', os.environ.get('ALGOPY_REPO', '/repo'), 'rev-parse', 'HEAD'],
                                  capture_output=True, text=True).stdout.strip()
        except Exception:
            head = ''
        decided = tot('syntactic') + tot('discharged')
        ev = {
            'property_id': pid,
            'tier': tier,
            'seed': seed,
            'level': 'other',
            'wall_s': round(wall, 2),
            'violations': len(new_viol),
            'assumptions': COMMON_ASSUMPTIONS + list(getattr(mod, 'ASSUMPTIONS', [])),
            'coverage': {
                'explanation': (
                    'bounded symbolic verification of the real code: each unit executes the repository\'s own '
                    'functions on object arrays of symbolic reals (every feasible branch by path forking); every '
                    'obligation (output term == independent oracle term) is cross-multiplied into a division-free '
                    'polynomial identity and decided by z3 (QF_NRA) for ALL values of the symbols under the stated '
                    'preconditions; sat models are replayed on the unpatched float code before being reported. '
                    + getattr(mod, 'EXPLANATION', '')),
                'units': len(results),
                'paths': tot('paths'),
                'infeasible_paths_pruned': tot('infeasible_paths'),
                'branch_decisions': tot('decisions'),
                'obligations': tot('obligations'),
                'discharged': decided,
                'discharged_by_solver_unsat': tot('discharged'),
                'closed_syntactically': tot('syntactic'),
                'structural_facts_checked': tot('facts'),
                'definedness_queries': sum(r.get('definedness_queries', 0) for r in results),
                'definedness_discharged_unsat': sum(r.get('definedness_discharged', 0) for r in results),
                'definedness_sat_but_benign_on_replay': sum(r.get('definedness_benign', 0) for r in results),
                'definedness_unknown': sum(r.get('definedness_unknown', 0) for r in results),
                'solver_queries': tot('queries'),
                'solver_seconds': round(tot('solver_s'), 2),
                'cross_solver': cross,
                'cross_solver_seconds': round(tot('cross_s'), 2),
                'traces_validated_against_impl': tot('validated_traces'),
                'values_validated_against_impl': tot('validated_values'),
                'evaluations': tot('obligations') + tot('facts'),
                'distinct_nontrivial': tot('discharged'),
                'rule': 'one case = one obligation of one unit/path; non-trivial = needed a solver verdict '
                        '(not closed by hash-consing)',
                'samples': samples,
                'bounds': bounds,
                'functions_encoded': functions,
                'stubs_hit': stubs,
                'inconclusive': inconclusive[:20],
                'not_encoded': not_encoded[:20],
                'known_findings_hit': sorted(seen),
                'repo_head': head,
                'exhaustive': False,
                'trusted_base': ['z3 4.x/5.x nlsat', 'numpy object-dtype semantics', 'symx object layer and stubs '
                                 '(validated against the float build on every run)'],
            },
        }
        os.makedirs(os.path.join(VERIF, 'evidence'), exist_ok=True)
        with open(os.path.join(VERIF, 'evidence', '%s.json' % pid), 'w') as f:
            json.dump(ev, f, indent=1, sort_keys=True, default=str)
    print('%s: %s' % (pid, {0: 'PASS', 1: 'VIOLATION', 2: 'INCONCLUSIVE'}[code]))
    return code
