"""Symbolic scalars for running the real algopy code on symbolic data.

Sym   -- hash-consed DAG node standing for a real number
SymC  -- pair of Sym (re, im) standing for a complex number
BoolSym -- a comparison between two Sym; bool() of it is the branch point
           (delegated to the active exploration context, see engine.py)

Nothing in here knows about algopy.  Construction is pure recording plus
constant folding and the identities x+0, x*1, x*0; all algebra is left to the
solver.
"""
from fractions import Fraction
import math
import numbers

import numpy as _np

# --------------------------------------------------------------------------
# global hash-cons table

_TABLE = {}
_NODES = []          # id -> node
_HOOKS = {'ctx': None}


def reset():
    """forget every node (call between units)"""
    _TABLE.clear()
    del _NODES[:]
    _KAPPA_SYMS.clear()


def current_ctx():
    return _HOOKS['ctx']


def set_ctx(ctx):
    _HOOKS['ctx'] = ctx


class SymError(Exception):
    pass


# --------------------------------------------------------------------------
# float constant snapping (DESIGN 2.1)

_KAPPA = {
    'pi': math.pi,
    'ln2': math.log(2.0),
    'ln10': math.log(10.0),
    'sqrt2': math.sqrt(2.0),
    'rsqrtpi': 1.0 / math.sqrt(math.pi),
}
_KAPPA_BOUNDS = {
    'pi': (Fraction(314159265, 10**8), Fraction(314159266, 10**8)),
    'ln2': (Fraction(69314718, 10**8), Fraction(69314719, 10**8)),
    'ln10': (Fraction(230258509, 10**8), Fraction(230258510, 10**8)),
    'sqrt2': (Fraction(141421356, 10**8), Fraction(141421357, 10**8)),
    'rsqrtpi': (Fraction(56418958, 10**8), Fraction(56418959, 10**8)),
}
_KAPPA_SYMS = {}
SNAP_LOG = {}        # float -> description, for the evidence


def kappa(name):
    s = _KAPPA_SYMS.get(name)
    if s is None:
        s = _mk('var', ('@' + name,))
        _KAPPA_SYMS[name] = s
    return s


def _snap_rational(x, maxden=10000, rel=1e-13):
    if x == 0.0:
        return Fraction(0)
    if not math.isfinite(x):
        return None
    fr = Fraction(x).limit_denominator(maxden)
    if abs(float(fr) - x) <= rel * max(1.0, abs(x)) and fr != 0:
        return fr
    return None


def inf_node():
    return _mk('var', ('@inf',))


def snap_float(x):
    """map a float constant met during execution to the real it stands for"""
    x = float(x)
    if x == float('inf'):
        return inf_node()
    if x != x or x == float('-inf'):
        raise SymError('non-finite float constant %r in symbolic run' % x)
    if x == int(x) and abs(x) < 2**62:
        return const(Fraction(int(x)))
    fr = _snap_rational(x)
    if fr is not None:
        SNAP_LOG.setdefault(x, 'rational %s' % fr)
        return const(fr)
    for k in (1, -1, 2, -2, 3, -3, 4, -4, 5, -5, 6, -6, 7, -7, 8, -8, 9, -9, 10, -10, 11, 12, 13, 14, 15, 16, 17, 18, 19, 20, 21, 22):
        for name, val in _KAPPA.items():
            q = x / (val ** k)
            fr = _snap_rational(q, maxden=16, rel=4e-15 * (1 + abs(k)))
            if fr is not None and abs(fr.numerator) <= 1024:
                SNAP_LOG.setdefault(x, '%s*%s^%d' % (fr, name, k))
                base = kappa(name)
                r = const(fr)
                p = base
                for _ in range(abs(k) - 1):
                    p = p * base
                return r * p if k > 0 else r / p
    SNAP_LOG.setdefault(x, 'exact binary')
    return const(Fraction(x))


def lift(x):
    """python/numpy number -> Sym or SymC (None if not a number)"""
    if isinstance(x, (Sym, SymC)):
        return x
    if isinstance(x, BoolSym):
        raise SymError('BoolSym used as a number')
    if isinstance(x, (bool, _np.bool_)):
        return const(Fraction(int(x)))
    if isinstance(x, (int, _np.integer)):
        return const(Fraction(int(x)))
    if isinstance(x, Fraction):
        return const(x)
    if isinstance(x, (float, _np.floating)):
        return snap_float(x)
    if isinstance(x, (complex, _np.complexfloating)):
        return SymC(snap_float(x.real), snap_float(x.imag))
    return None


# --------------------------------------------------------------------------

def _mk(op, a):
    key = (op,) + tuple(t.id if isinstance(t, Sym) else t for t in a)
    n = _TABLE.get(key)
    if n is None:
        n = object.__new__(Sym)
        n.op = op
        n.a = a
        n.id = len(_NODES)
        _NODES.append(n)
        _TABLE[key] = n
    return n


def const(fr):
    if not isinstance(fr, Fraction):
        fr = Fraction(fr)
    return _mk('const', (fr,))


def var(name):
    return _mk('var', (str(name),))


def app(fname, args, params=()):
    """uninterpreted atom fname(args; params)"""
    return _mk('app', (fname, tuple(params)) + tuple(args))


ZERO = None
ONE = None


def _zero():
    return const(Fraction(0))


def _one():
    return const(Fraction(1))


class Sym(object):
    __slots__ = ('op', 'a', 'id')
    # higher than ndarray so that ndarray.__op__(Sym) is still elementwise:
    # (we do NOT set __array_ufunc__ = None for that reason)

    def __init__(self, *args):
        raise TypeError('use sym.var/const')

    # -- identity ----------------------------------------------------------
    def __hash__(self):
        return self.id

    def __repr__(self):
        return 'Sym(%s)' % self.short()

    def short(self, depth=3):
        if self.op == 'const':
            return str(self.a[0])
        if self.op == 'var':
            return self.a[0]
        if depth == 0:
            return '#%d' % self.id
        if self.op == 'app':
            return '%s(%s)' % (self.a[0] + (str(list(self.a[1])) if self.a[1] else ''),
                               ','.join(t.short(depth - 1) for t in self.a[2:]))
        sym = {'add': '+', 'mul': '*', 'div': '/'}[self.op]
        return '(%s%s%s)' % (self.a[0].short(depth - 1), sym, self.a[1].short(depth - 1))

    def is_const(self):
        return self.op == 'const'

    # numpy-scalar protocol
    shape = ()
    size = 1
    ndim = 0

    @property
    def dtype(self):
        return _np.dtype(float)

    @property
    def T(self):
        return self

    def item(self):
        return self

    def flatten(self):
        a = _np.empty(1, dtype=object)
        a[0] = self
        return a

    ravel = flatten

    def cval(self):
        return self.a[0]

    def copy(self):
        return self

    def __copy__(self):
        return self

    def __deepcopy__(self, memo):
        return self

    # -- arithmetic --------------------------------------------------------
    def __add__(self, o):
        o = lift(o)
        if o is None:
            return NotImplemented
        if isinstance(o, SymC):
            return SymC(self, _zero()) + o
        if self.op == 'const' and o.op == 'const':
            return const(self.a[0] + o.a[0])
        if self.op == 'const' and self.a[0] == 0:
            return o
        if o.op == 'const' and o.a[0] == 0:
            return self
        x, y = (self, o) if self.id <= o.id else (o, self)
        return _mk('add', (x, y))

    __radd__ = __add__

    def __neg__(self):
        return self * const(Fraction(-1))

    def __pos__(self):
        return self

    def __sub__(self, o):
        o = lift(o)
        if o is None:
            return NotImplemented
        if isinstance(o, SymC):
            return SymC(self, _zero()) - o
        if o is self:
            return _zero()
        return self + (-o)

    def __rsub__(self, o):
        o = lift(o)
        if o is None:
            return NotImplemented
        return o - self

    def __mul__(self, o):
        if isinstance(o, BoolSym):
            o = 1 if bool(o) else 0
        o = lift(o)
        if o is None:
            return NotImplemented
        if isinstance(o, SymC):
            return SymC(self, _zero()) * o
        if self.op == 'const' and o.op == 'const':
            return const(self.a[0] * o.a[0])
        if self.op == 'const':
            if self.a[0] == 0:
                return self
            if self.a[0] == 1:
                return o
        if o.op == 'const':
            if o.a[0] == 0:
                return o
            if o.a[0] == 1:
                return self
        # fold const * (const * x)
        if self.op == 'const' and o.op == 'mul' and o.a[0].op == 'const':
            return const(self.a[0] * o.a[0].a[0]) * o.a[1]
        if o.op == 'const' and self.op == 'mul' and self.a[0].op == 'const':
            return const(o.a[0] * self.a[0].a[0]) * self.a[1]
        x, y = (self, o) if self.id <= o.id else (o, self)
        # keep constants first
        if y.op == 'const':
            x, y = y, x
        return _mk('mul', (x, y))

    __rmul__ = __mul__

    def __truediv__(self, o):
        o = lift(o)
        if o is None:
            return NotImplemented
        if isinstance(o, SymC):
            return SymC(self, _zero()) / o
        if o.op == 'const':
            if o.a[0] == 0:
                if _HOOKS.get('divide_ignored', 0) > 0 and self.op == 'const' and self.a[0] != 0:
                    return inf_node()
                raise ZeroDivisionError('symbolic division by constant zero')
            return self * const(1 / o.a[0])
        if o.op == 'var' and o.a[0] == '@inf':
            if self.op == 'var' and self.a[0] == '@inf':
                raise SymError('inf/inf')
            return _zero()
        ctx = _HOOKS['ctx']
        if ctx is not None:
            ctx.note_divisor(o)
        if self.op == 'const' and self.a[0] == 0:
            return self
        if o is self:
            return _one()
        return _mk('div', (self, o))

    def __rtruediv__(self, o):
        o = lift(o)
        if o is None:
            return NotImplemented
        return o / self

    def __pow__(self, r, mod=None):
        if isinstance(r, BoolSym):
            r = 1 if bool(r) else 0
        if isinstance(r, (bool, _np.bool_)):
            r = int(r)
        if isinstance(r, (float, _np.floating)) and float(r) == int(r):
            r = int(r)
        if isinstance(r, Fraction) and r.denominator == 1:
            r = int(r)
        if isinstance(r, Sym) and r.op == 'const' and r.a[0].denominator == 1:
            r = int(r.a[0])
        if isinstance(r, (int, _np.integer)):
            r = int(r)
            if abs(r) > 64:
                raise SymError('integer power too large')
            if r == 0:
                return _one()
            p = self
            for _ in range(abs(r) - 1):
                p = p * self
            return p if r > 0 else _one() / p
        rl = lift(r)
        if rl is None or isinstance(rl, SymC):
            return NotImplemented
        if self.op == 'const' and self.a[0] == 1:
            return self
        # half-integer exponents via the sqrt atom
        if rl.op == 'const' and rl.a[0].denominator == 2:
            k = (rl.a[0] - Fraction(1, 2))
            return self.sqrt() * (self ** int(k))
        return fn_pow(self, rl)

    def __rpow__(self, b):
        bl = lift(b)
        if bl is None or isinstance(bl, SymC):
            # complex base with symbolic exponent: not supported
            return NotImplemented
        return bl ** self

    def __abs__(self):
        if self.op == 'const':
            return const(abs(self.a[0]))
        return self if bool(self >= 0) else -self

    def __float__(self):
        if self.op == 'const':
            return float(self.a[0])
        raise SymError('float() of a symbolic value (the real code left the object layer)')

    def __int__(self):
        if self.op == 'const' and self.a[0].denominator == 1:
            return int(self.a[0])
        raise SymError('int() of a symbolic value')

    __index__ = __int__

    def __complex__(self):
        return complex(float(self))

    def __bool__(self):
        if self.op == 'const':
            return self.a[0] != 0
        return bool(self != 0)

    # -- comparisons -------------------------------------------------------
    def _cmp(self, op, o):
        o = lift(o)
        if o is None or isinstance(o, SymC):
            return NotImplemented
        if self.op == 'const' and o.op == 'const':
            x, y = self.a[0], o.a[0]
            return {'<': x < y, '<=': x <= y, '==': x == y, '!=': x != y}[op]
        if self is o:
            return op in ('<=', '==')
        return BoolSym(op, self, o)

    def __lt__(self, o):
        return self._cmp('<', o)

    def __le__(self, o):
        return self._cmp('<=', o)

    def __gt__(self, o):
        o = lift(o)
        if o is None or isinstance(o, SymC):
            return NotImplemented
        return o._cmp('<', self)

    def __ge__(self, o):
        o = lift(o)
        if o is None or isinstance(o, SymC):
            return NotImplemented
        return o._cmp('<=', self)

    def __eq__(self, o):
        r = self._cmp('==', o)
        if r is NotImplemented:
            return False
        return r

    def __ne__(self, o):
        r = self._cmp('!=', o)
        if r is NotImplemented:
            return True
        return r

    def __getitem__(self, idx):
        # like a numpy scalar: x[...] and x[()] are the number itself
        if idx is Ellipsis or (isinstance(idx, tuple) and len(idx) == 0):
            return self
        raise TypeError('symbolic scalar is not subscriptable with %r' % (idx,))

    # -- complex protocol --------------------------------------------------
    @property
    def real(self):
        return self

    @property
    def imag(self):
        return _zero()

    def conjugate(self):
        return self

    conj = conjugate

    # -- elementary functions (called by numpy ufuncs on object arrays) ----
    def _fn(self, name):
        ctx = _HOOKS['ctx']
        if ctx is not None:
            r = ctx.atom_value(name, self)
            if r is not None:
                return r
        return app(name, (self,))

    def exp(self):
        if self.op == 'const' and self.a[0] == 0:
            return _one()
        return self._fn('exp')

    def log(self):
        if self.op == 'const' and self.a[0] == 1:
            return _zero()
        ctx = _HOOKS['ctx']
        if ctx is not None:
            ctx.note_positive(self, 'log')
        if self.op == 'const':
            k = _const_log(self.a[0])
            if k is not None:
                return k
        return self._fn('log')

    def sqrt(self):
        if self.op == 'const':
            r = _const_sqrt(self.a[0])
            if r is not None:
                return r
        ctx = _HOOKS['ctx']
        if ctx is not None:
            ctx.note_positive(self, 'sqrt')
        return self._fn('sqrt')

    def _shifted(self, name):
        """sin/cos/sinh/cosh of (k*pi/2 + x): exact angle addition"""
        return None

    def sin(self):
        r = _trig_shift('sin', self)
        if r is not None:
            return r
        if self.op == 'const' and self.a[0] == 0:
            return _zero()
        return self._fn('sin')

    def cos(self):
        r = _trig_shift('cos', self)
        if r is not None:
            return r
        if self.op == 'const' and self.a[0] == 0:
            return _one()
        return self._fn('cos')

    def tan(self):
        return self._fn('tan')

    def arcsin(self):
        return self._fn('arcsin')

    def arccos(self):
        return self._fn('arccos')

    def arctan(self):
        return self._fn('arctan')

    def sinh(self):
        return self._fn('sinh')

    def cosh(self):
        return self._fn('cosh')

    def tanh(self):
        return self._fn('tanh')

    def arcsinh(self):
        return self._fn('arcsinh')

    def arccosh(self):
        return self._fn('arccosh')

    def arctanh(self):
        return self._fn('arctanh')

    def log1p(self):
        ctx = _HOOKS['ctx']
        if ctx is not None:
            ctx.note_positive(self + 1, 'log1p')
        return self._fn('log1p')

    def expm1(self):
        return self._fn('expm1')

    def exp2(self):
        if self.op == 'const' and self.a[0].denominator == 1 and abs(self.a[0]) < 200:
            return const(Fraction(2) ** int(self.a[0]))
        return self._fn('exp2')

    def log2(self):
        return self._fn('log2')

    def log10(self):
        return self._fn('log10')

    def square(self):
        return self * self

    def reciprocal(self):
        return _one() / self

    def sign(self):
        if self.op == 'const':
            return const((self.a[0] > 0) - (self.a[0] < 0))
        if bool(self > 0):
            return _one()
        if bool(self < 0):
            return const(-1)
        return _zero()

    def fabs(self):
        return abs(self)

    absolute = fabs


numbers.Real.register(Sym)


def _const_sqrt(fr):
    if fr < 0:
        return None
    p, q = fr.numerator, fr.denominator
    rp, rq = math.isqrt(p), math.isqrt(q)
    if rp * rp == p and rq * rq == q:
        return const(Fraction(rp, rq))
    if fr == 2:
        return kappa('sqrt2')
    return None


def _const_log(fr):
    if fr == 2:
        return kappa('ln2')
    if fr == 10:
        return kappa('ln10')
    if fr == Fraction(1, 2):
        return -kappa('ln2')
    return None


def _split_pi_shift(s):
    """if s = c + x (or c) with c a rational multiple k/2 of the symbol pi
    return (k, x) else None"""
    pi = _KAPPA_SYMS.get('pi')
    if pi is None:
        return None

    def halfpi_mult(t):
        # t == q * pi with 2q integer ?
        if t is pi:
            return 2
        if t.op == 'mul' and t.a[0].op == 'const' and t.a[1] is pi:
            q = t.a[0].a[0] * 2
            if q.denominator == 1:
                return int(q)
        return None

    k = halfpi_mult(s)
    if k is not None:
        return k, _zero()
    if s.op == 'add':
        for i in (0, 1):
            k = halfpi_mult(s.a[i])
            if k is not None:
                return k, s.a[1 - i]
    return None


def _trig_shift(name, s):
    r = _split_pi_shift(s)
    if r is None:
        return None
    k, x = r
    k %= 4
    if name == 'sin':
        return [x.sin, x.cos, lambda: -x.sin(), lambda: -x.cos()][k]()
    else:
        return [x.cos, lambda: -x.sin(), lambda: -x.cos(), x.sin][k]()


def fn_pow(base, r):
    ctx = _HOOKS['ctx']
    if ctx is not None:
        ctx.note_positive(base, 'pow')
        v = ctx.atom_value2('pow', base, r)
        if v is not None:
            return v
    return app('pow', (base, r))


# --------------------------------------------------------------------------

class BoolSym(object):
    """op in {'<','<=','==','!='} between two Sym; or 'not'/'and'/'or'"""
    __slots__ = ('op', 'l', 'r')

    def __init__(self, op, l, r=None):
        self.op = op
        self.l = l
        self.r = r

    def key(self):
        if self.op in ('<', '<=', '==', '!='):
            return (self.op, self.l.id, self.r.id)
        if self.op == 'not':
            return ('not', self.l.key())
        return (self.op, self.l.key(), self.r.key())

    def negate(self):
        if self.op == '<':
            return BoolSym('<=', self.r, self.l)
        if self.op == '<=':
            return BoolSym('<', self.r, self.l)
        if self.op == '==':
            return BoolSym('!=', self.l, self.r)
        if self.op == '!=':
            return BoolSym('==', self.l, self.r)
        if self.op == 'not':
            return self.l
        if self.op == 'and':
            return BoolSym('or', self.l.negate(), self.r.negate())
        if self.op == 'or':
            return BoolSym('and', self.l.negate(), self.r.negate())
        raise SymError(self.op)

    def __bool__(self):
        ctx = _HOOKS['ctx']
        if ctx is None:
            raise SymError('bool() of symbolic comparison outside an exploration context')
        return ctx.decide(self)

    def __invert__(self):
        return self.negate()

    def __and__(self, o):
        if isinstance(o, BoolSym):
            return BoolSym('and', self, o)
        return self if bool(o) else False

    __rand__ = __and__

    def __or__(self, o):
        if isinstance(o, BoolSym):
            return BoolSym('or', self, o)
        return True if bool(o) else self

    __ror__ = __or__

    def __repr__(self):
        if self.op in ('<', '<=', '==', '!='):
            return '(%s %s %s)' % (self.l.short(), self.op, self.r.short())
        if self.op == 'not':
            return '(not %r)' % (self.l,)
        return '(%r %s %r)' % (self.l, self.op, self.r)

    # arithmetic use of a truth value (masks): concretise by forking
    def _num(self):
        return 1 if bool(self) else 0

    def __mul__(self, o):
        return self._num() * o

    __rmul__ = __mul__

    def __add__(self, o):
        return self._num() + o

    __radd__ = __add__

    def __sub__(self, o):
        return self._num() - o

    def __rsub__(self, o):
        return o - self._num()

    def __int__(self):
        return self._num()

    __index__ = __int__

    def __float__(self):
        return float(self._num())


# --------------------------------------------------------------------------

class SymC(object):
    """complex number re + i*im with Sym parts"""
    __slots__ = ('re', 'im')

    def __init__(self, re, im):
        self.re = lift(re)
        self.im = lift(im)

    def __repr__(self):
        return 'SymC(%s, %s)' % (self.re.short(), self.im.short())

    def __hash__(self):
        return hash((self.re.id, self.im.id))

    def copy(self):
        return self

    def __copy__(self):
        return self

    def __deepcopy__(self, memo):
        return self

    @staticmethod
    def _lift(o):
        o = lift(o)
        if o is None:
            return None
        if isinstance(o, Sym):
            return SymC(o, _zero())
        return o

    @property
    def real(self):
        return self.re

    @property
    def imag(self):
        return self.im

    def conjugate(self):
        return SymC(self.re, -self.im)

    conj = conjugate

    def __add__(self, o):
        o = SymC._lift(o)
        if o is None:
            return NotImplemented
        return SymC(self.re + o.re, self.im + o.im)

    __radd__ = __add__

    def __neg__(self):
        return SymC(-self.re, -self.im)

    def __pos__(self):
        return self

    def __sub__(self, o):
        o = SymC._lift(o)
        if o is None:
            return NotImplemented
        return SymC(self.re - o.re, self.im - o.im)

    def __rsub__(self, o):
        o = SymC._lift(o)
        if o is None:
            return NotImplemented
        return o - self

    def __mul__(self, o):
        o = SymC._lift(o)
        if o is None:
            return NotImplemented
        return SymC(self.re * o.re - self.im * o.im, self.re * o.im + self.im * o.re)

    __rmul__ = __mul__

    def __truediv__(self, o):
        o = SymC._lift(o)
        if o is None:
            return NotImplemented
        if o.im.op == 'const' and o.im.a[0] == 0:
            return SymC(self.re / o.re, self.im / o.re)
        n = o.re * o.re + o.im * o.im
        num = self * o.conjugate()
        return SymC(num.re / n, num.im / n)

    def __rtruediv__(self, o):
        o = SymC._lift(o)
        if o is None:
            return NotImplemented
        return o / self

    def __pow__(self, r, mod=None):
        if isinstance(r, (float, _np.floating)) and float(r) == int(r):
            r = int(r)
        if isinstance(r, Sym) and r.op == 'const' and r.a[0].denominator == 1:
            r = int(r.a[0])
        if isinstance(r, (int, _np.integer)):
            r = int(r)
            if r == 0:
                return SymC(_one(), _zero())
            p = self
            for _ in range(abs(r) - 1):
                p = p * self
            return p if r > 0 else SymC(_one(), _zero()) / p
        raise SymError('non-integer power of a symbolic complex number')

    def __rpow__(self, b):
        raise SymError('symbolic complex exponent')

    def __abs__(self):
        raise SymError('abs of a symbolic complex number')

    def __complex__(self):
        return complex(float(self.re), float(self.im))

    def __float__(self):
        raise SymError('float() of a symbolic complex value')

    def __eq__(self, o):
        o = SymC._lift(o)
        if o is None:
            return False
        a = (self.re == o.re)
        b = (self.im == o.im)
        if a is True:
            return b
        if b is True:
            return a
        if a is False or b is False:
            return False
        return a & b

    def __ne__(self, o):
        r = self.__eq__(o)
        if isinstance(r, BoolSym):
            return r.negate()
        return not r

    def is_real(self):
        return self.im.op == 'const' and self.im.a[0] == 0

    # elementary functions of a complex argument: via exp of the parts
    def exp(self):
        e = self.re.exp()
        return SymC(e * self.im.cos(), e * self.im.sin())

    def sin(self):
        return SymC(self.re.sin() * self.im.cosh(), self.re.cos() * self.im.sinh())

    def cos(self):
        return SymC(self.re.cos() * self.im.cosh(), -(self.re.sin() * self.im.sinh()))

    def sinh(self):
        # sinh(a+ib) = sinh a cos b + i cosh a sin b
        return SymC(self.re.sinh() * self.im.cos(), self.re.cosh() * self.im.sin())

    def cosh(self):
        return SymC(self.re.cosh() * self.im.cos(), self.re.sinh() * self.im.sin())

    def tan(self):
        return self.sin() / self.cos()

    def tanh(self):
        return self.sinh() / self.cosh()

    def square(self):
        return self * self

    def reciprocal(self):
        return SymC(_one(), _zero()) / self

    def _cfn(self, name):
        ctx = _HOOKS['ctx']
        if ctx is not None:
            v = ctx.atomdefs_c.get((name, self.re.id, self.im.id))
            if v is not None:
                return v
        return None

    def sqrt(self):
        v = self._cfn('sqrt')
        if v is None:
            raise SymError('sqrt of a symbolic complex number without a parametrisation')
        return v

    def log(self):
        v = self._cfn('log')
        if v is not None:
            return v
        if self.is_real():
            return SymC(self.re.log(), _zero())
        return SymC(app('clog_re', (self.re, self.im)), app('clog_im', (self.re, self.im)))

    def expm1(self):
        return self.exp() - 1

    def log1p(self):
        return (self + 1).log()


numbers.Complex.register(SymC)


def is_sym(x):
    return isinstance(x, (Sym, SymC))


def cone(roots):
    """all nodes reachable from roots, sorted by id (a topological order)"""
    seen = set()
    stack = [r for r in roots]
    out = []
    while stack:
        n = stack.pop()
        if n.id in seen:
            continue
        seen.add(n.id)
        out.append(n)
        if n.op in ('add', 'mul', 'div'):
            stack.append(n.a[0])
            stack.append(n.a[1])
        elif n.op == 'app':
            stack.extend(n.a[2:])
    out.sort(key=lambda t: t.id)
    return out
