"""Catalogue of public operations (name, input spec, call) shared by the
self-consistency properties C10-C14: the same real code is run in two
configurations and the results are compared by the solver."""
import operator
from fractions import Fraction

import numpy as np

from . import sym as S
from . import npx
from .props.common import plain


class Arg(object):
    def __init__(self, kind, shape=(), dom='any', cplx=False):
        self.kind = kind          # 'utpm' | 'ndarray' | 'scalar'
        self.shape = tuple(shape)
        self.dom = dom            # any | pos | unit | abs1 | nonzero | gtm1 | spd2 (see make_input)
        self.cplx = cplx


class Op(object):
    def __init__(self, name, args, fn, group='elementwise', npfn=None, tags=(), nout=1, meta=None):
        self.meta = meta or {}
        self.name = name
        self.args = args
        self.fn = fn              # fn(algopy, *operands) -> UTPM | tuple
        self.group = group
        self.npfn = npfn          # numpy reference on zeroth coefficients (for C10)
        self.tags = set(tags)
        self.nout = nout


def _dom(ctx, v, dom):
    if dom == 'pos':
        ctx.assume(v > 0)
    elif dom == 'unit':
        ctx.assume(v > 0)
        ctx.assume(v < 1)
    elif dom == 'abs1':
        ctx.assume(v > -1)
        ctx.assume(v < 1)
    elif dom == 'nonzero':
        ctx.assume(v != 0)
    elif dom == 'gtm1':
        ctx.assume(v > -1)


def make_input(ctx, arg, name, D, P):
    """(D,P)+shape array of fresh variables for a 'utpm' arg; shape array for
    'ndarray'; a single variable for 'scalar'."""
    if arg.kind == 'scalar':
        v = ctx.cvar(name) if arg.cplx else ctx.var(name)
        if not arg.cplx:
            _dom(ctx, v, arg.dom)
        return v
    shp = ((D, P) if arg.kind == 'utpm' else ()) + arg.shape
    A = np.empty(shp, dtype=object)
    for idx in np.ndindex(*shp):
        nm = '%s%s' % (name, list(idx))
        A[idx] = ctx.cvar(nm) if arg.cplx else ctx.var(nm)
        if not arg.cplx and (arg.kind != 'utpm' or idx[0] == 0):
            _dom(ctx, A[idx], arg.dom)
    if arg.dom == 'den01':
        # programs dividing by 1 + x[0]*x[1]: that denominator delimits their domain
        Z = A[0] if arg.kind == 'utpm' else A[None]
        for p in range(Z.shape[0]):
            ctx.assume(1 + Z[p][0] * Z[p][1] != 0)
    if arg.dom == 'zero' and arg.kind == 'utpm':
        # base point exactly on the kink
        for idx in np.ndindex(*A[0].shape):
            A[0][idx] = S.const(0) if ctx.mode == 'sym' else 0.0
    if arg.dom == 'sym' and arg.kind == 'utpm':
        # symmetric matrices
        n = arg.shape[0]
        for d in range(D):
            for p in range(P):
                for i in range(n):
                    for j in range(i):
                        A[d, p, i, j] = A[d, p, j, i]
    return A


def wrap(ctx, algopy, arg, A, layout='C'):
    """array of numbers -> operand object for the real code; layout='F' stores every matrix
    (the trailing two axes) in Fortran order, the layout LAPACK wrappers may overwrite in place"""
    if arg.kind == 'scalar':
        return A
    if ctx.mode == 'sym':
        a = npx.sarr(np.array(A, dtype=object), complex if arg.cplx else float)
    else:
        a = np.array(np.asarray(A).tolist(), dtype=complex if arg.cplx else float).reshape(np.shape(A)).copy()
        if layout == 'F' and len(arg.shape) >= 2:
            a = np.ascontiguousarray(np.swapaxes(a, -1, -2)).swapaxes(-1, -2)
    return algopy.UTPM(a) if arg.kind == 'utpm' else a


def outputs(y):
    """normalise a result to a list of coefficient arrays"""
    if isinstance(y, tuple):
        return [plain(t.data) for t in y if hasattr(t, 'data')]
    return [plain(y.data)]


def _sp(name, *pre):
    def f(algopy, x):
        return getattr(algopy.special, name)(*(pre + (x,)))
    return f


def _np(name):
    def f(algopy, x):
        return getattr(algopy, name)(x)
    return f


def catalogue():
    ops = []
    U = lambda shape=(2,), dom='any', **k: Arg('utpm', shape, dom, **k)
    N = lambda shape=(2,), dom='any', **k: Arg('ndarray', shape, dom, **k)
    Sc = lambda dom='any', **k: Arg('scalar', (), dom, **k)

    def add(name, args, fn, group='elementwise', **kw):
        ops.append(Op(name, args, fn, group, **kw))

    for name, dom in [('exp', 'any'), ('expm1', 'any'), ('log', 'pos'), ('log1p', 'gtm1'), ('sqrt', 'pos'),
                      ('sin', 'any'), ('cos', 'any'), ('tan', 'any'), ('arcsin', 'abs1'), ('arccos', 'abs1'),
                      ('arctan', 'any'), ('sinh', 'any'), ('cosh', 'any'), ('tanh', 'any'),
                      ('reciprocal', 'nonzero'), ('square', 'any'), ('negative', 'any')]:
        add(name, [U(dom=dom)], _np(name), npfn=getattr(np, name))
    for name, dom in [('erf', 'any'), ('erfi', 'any'), ('dawsn', 'any'), ('logit', 'unit'), ('expit', 'any'),
                      ('gammaln', 'pos'), ('psi', 'pos')]:
        add(name, [U(dom=dom)], _sp(name), group='special', npfn=(lambda n: lambda a: getattr(__import__('scipy.special').special, n)(a))(name))
    add('polygamma1', [U(dom='pos')], _sp('polygamma', 1), group='special')
    add('hyperu(1.5,0.5)', [U(dom='pos')], _sp('hyperu', 1.5, 0.5), group='special')
    add('absolute', [U(dom='nonzero')], _np('absolute'), group='kink', npfn=np.absolute)
    add('sign', [U(dom='nonzero')], _np('sign'), group='kink', npfn=np.sign)
    add('abs()', [U(dom='nonzero')], lambda algopy, x: abs(x), group='kink', npfn=np.absolute)
    add('neg', [U()], lambda algopy, x: -x, npfn=np.negative)
    add('pow3', [U()], lambda algopy, x: x ** 3, group='pow', npfn=lambda a: a ** 3)
    add('pow-2', [U(dom='nonzero')], lambda algopy, x: x ** -2, group='pow')
    add('pow2.5', [U(dom='pos')], lambda algopy, x: x ** 2.5, group='pow')
    add('rpow2', [U()], lambda algopy, x: 2.0 ** x, group='pow')
    add('pow_utpm', [U(dom='pos'), U()], lambda algopy, x, y: x ** y, group='pow')
    # arithmetic
    for opn, f in [('add', operator.add), ('sub', operator.sub), ('mul', operator.mul), ('div', operator.truediv)]:
        dom = 'nonzero' if opn == 'div' else 'any'
        add('utpm %s utpm' % opn, [U((2,)), U((2,), dom)], (lambda f: lambda algopy, x, y: f(x, y))(f), group='arith', npfn=f)
        add('utpm(2,2) %s utpm(2,)' % opn, [U((2, 2)), U((2,), dom)], (lambda f: lambda algopy, x, y: f(x, y))(f), group='arith', npfn=f)
        add('utpm %s ndarray' % opn, [U((2,)), N((2,), dom)], (lambda f: lambda algopy, x, y: f(x, y))(f), group='arith', npfn=f)
        add('ndarray %s utpm' % opn, [N((2,)), U((2,), dom)], (lambda f: lambda algopy, x, y: f(x, y))(f), group='arith', npfn=f)
        add('utpm %s scalar' % opn, [U((2,)), Sc(dom)], (lambda f: lambda algopy, x, y: f(x, y))(f), group='arith', npfn=f)
        add('scalar %s utpm' % opn, [Sc(), U((2,), dom)], (lambda f: lambda algopy, x, y: f(x, y))(f), group='arith', npfn=f)
    add('minimum', [U((2,)), U((2,))], lambda algopy, x, y: algopy.minimum(x, y), group='kink', tags=['neq'], npfn=np.minimum)
    add('maximum', [U((2,)), U((2,))], lambda algopy, x, y: algopy.maximum(x, y), group='kink', tags=['neq'], npfn=np.maximum)
    # shape manipulating
    add('getitem[1]', [U((3,))], lambda algopy, x: x[1], group='shape', npfn=lambda a: a[1])
    add('getitem[::-1]', [U((3,))], lambda algopy, x: x[::-1], group='shape', npfn=lambda a: a[::-1])
    add('getitem[:,1]', [U((2, 2))], lambda algopy, x: x[:, 1], group='shape', npfn=lambda a: a[:, 1])
    add('reshape', [U((2, 3))], lambda algopy, x: algopy.reshape(x, (3, 2)), group='shape', npfn=lambda a: a.reshape(3, 2))
    add('transpose', [U((2, 3))], lambda algopy, x: x.T, group='shape', npfn=lambda a: a.T)
    add('transpose(3-D)', [U((2, 3, 2))], lambda algopy, x: algopy.transpose(x), group='shape', npfn=lambda a: np.transpose(a))
    add('trace(tall)', [U((4, 2))], lambda algopy, x: algopy.trace(x), group='shape', npfn=np.trace)
    add('sum', [U((2, 3))], lambda algopy, x: algopy.sum(x), group='shape', npfn=np.sum)
    add('sum(axis=0)', [U((2, 3))], lambda algopy, x: algopy.sum(x, axis=0), group='shape', npfn=lambda a: np.sum(a, axis=0))
    add('sum(axis=-1)', [U((2, 3))], lambda algopy, x: algopy.sum(x, axis=-1), group='shape', npfn=lambda a: np.sum(a, axis=-1))
    add('prod', [U((3,))], lambda algopy, x: algopy.prod(x), group='shape', npfn=np.prod)
    add('tile', [U((2,))], lambda algopy, x: algopy.tile(x, 2), group='shape', npfn=lambda a: np.tile(a, 2))
    add('diag(vec)', [U((2,))], lambda algopy, x: algopy.diag(x), group='shape', npfn=np.diag)
    add('diag(vec,k=-1)', [U((3,))], lambda algopy, x: algopy.diag(x, -1), group='shape', npfn=lambda a: np.diag(a, -1))
    add('diag(vec,k=2)', [U((2,))], lambda algopy, x: algopy.diag(x, 2), group='shape', npfn=lambda a: np.diag(a, 2))
    add('diag(mat,k=-1)', [U((3, 3))], lambda algopy, x: algopy.diag(x, -1), group='shape', npfn=lambda a: np.diag(a, -1))
    add('tile(vec,(3,1))', [U((2,))], lambda algopy, x: algopy.tile(x, (3, 1)), group='shape', npfn=lambda a: np.tile(a, (3, 1)))
    add('tile(vec,(2,2))', [U((3,))], lambda algopy, x: algopy.tile(x, (2, 2)), group='shape', npfn=lambda a: np.tile(a, (2, 2)))
    add('tile(mat,(2,1,2))', [U((2, 2))], lambda algopy, x: algopy.tile(x, (2, 1, 2)), group='shape', npfn=lambda a: np.tile(a, (2, 1, 2)))
    add('diag(mat)', [U((2, 2))], lambda algopy, x: algopy.diag(x), group='shape', npfn=np.diag)
    add('trace', [U((2, 2))], lambda algopy, x: algopy.trace(x), group='shape', npfn=np.trace)
    add('tril', [U((2, 2))], lambda algopy, x: algopy.tril(x), group='shape', npfn=np.tril)
    add('triu', [U((2, 2))], lambda algopy, x: algopy.triu(x), group='shape', npfn=np.triu)
    add('symvec', [U((2, 2))], lambda algopy, x: algopy.symvec(x), group='shape')
    add('vecsym', [U((3,))], lambda algopy, x: algopy.vecsym(x), group='shape')
    # linear algebra without LAPACK factorisations
    add('dot(mat,mat)', [U((2, 2)), U((2, 2))], lambda algopy, x, y: algopy.dot(x, y), group='linalg', npfn=np.dot)
    add('dot(mat,vec)', [U((2, 2)), U((2,))], lambda algopy, x, y: algopy.dot(x, y), group='linalg', npfn=np.dot)
    add('dot(vec,vec)', [U((2,)), U((2,))], lambda algopy, x, y: algopy.dot(x, y), group='linalg', npfn=np.dot)
    add('dot(mat,ndarray)', [U((2, 2)), N((2, 2))], lambda algopy, x, y: algopy.dot(x, y), group='linalg', npfn=np.dot)
    add('dot(ndarray,mat)', [N((2, 2)), U((2, 2))], lambda algopy, x, y: algopy.dot(x, y), group='linalg', npfn=np.dot)
    add('outer', [U((2,)), U((2,))], lambda algopy, x, y: algopy.outer(x, y), group='linalg', npfn=np.outer)
    add('outer(ndarray,utpm)', [N((2,)), U((3,))], lambda algopy, x, y: algopy.outer(x, y), group='linalg', npfn=np.outer)
    add('outer(utpm,ndarray)', [U((2,)), N((3,))], lambda algopy, x, y: algopy.outer(x, y), group='linalg', npfn=np.outer)
    add('outer(2,)x(3,)', [U((2,)), U((3,))], lambda algopy, x, y: algopy.outer(x, y), group='linalg', npfn=np.outer)
    add('dot(ndarray mat,vec)', [N((2, 3)), U((3,))], lambda algopy, x, y: algopy.dot(x, y), group='linalg', npfn=np.dot)
    add('dot(ndarray vec,mat)', [N((2,)), U((2, 3))], lambda algopy, a, b: algopy.dot(a, b), group='dot', npfn=np.dot)
    add('dot(mat,ndarray vec)', [U((3, 2)), N((2,))], lambda algopy, a, b: algopy.dot(a, b), group='dot', npfn=np.dot)
    add('dot(ndarray rank3,mat)', [N((2, 2, 2)), U((2, 3))], lambda algopy, a, b: algopy.dot(a, b), group='dot', npfn=np.dot)
    add('dot(mat,ndarray rank3)', [U((3, 2)), N((2, 2, 2))], lambda algopy, a, b: algopy.dot(a, b), group='dot', npfn=np.dot)
    add('dot(vec,ndarray mat)', [U((2,)), N((2, 3))], lambda algopy, x, y: algopy.dot(x, y), group='linalg', npfn=np.dot)
    add('dot(vec,mat)', [U((2,)), U((2, 3))], lambda algopy, x, y: algopy.dot(x, y), group='linalg', npfn=np.dot)
    # broadcasting against an operand of higher rank
    for opn, f in [('add', operator.add), ('sub', operator.sub), ('mul', operator.mul), ('div', operator.truediv)]:
        dom = 'nonzero' if opn == 'div' else 'any'
        add('utpm(2,) %s ndarray(3,2)' % opn, [U((2,)), N((3, 2), dom)], (lambda f: lambda algopy, x, y: f(x, y))(f), group='arith', npfn=f)
        add('ndarray(3,2) %s utpm(2,)' % opn, [N((3, 2)), U((2,), dom)], (lambda f: lambda algopy, x, y: f(x, y))(f), group='arith', npfn=f)
        add('utpm(2,) %s utpm(3,2)' % opn, [U((2,)), U((3, 2), dom)], (lambda f: lambda algopy, x, y: f(x, y))(f), group='arith', npfn=f)
    add('dot(mat,complex ndarray)', [U((2, 2)), N((2, 2), cplx=True)], lambda algopy, x, y: algopy.dot(x, y), group='linalg', npfn=np.dot)
    add('dot(complex ndarray,mat)', [N((2, 2), cplx=True), U((2, 2))], lambda algopy, x, y: algopy.dot(x, y), group='linalg', npfn=np.dot)
    add('dot(complex mat,mat)', [U((2, 2), cplx=True), U((2, 2))], lambda algopy, x, y: algopy.dot(x, y), group='linalg', npfn=np.dot)
    add('utpm * complex ndarray', [U((2,)), N((2,), cplx=True)], lambda algopy, x, y: x * y, group='arith', npfn=operator.mul)
    add('complex utpm + utpm', [U((2,), cplx=True), U((2,))], lambda algopy, x, y: x + y, group='arith', npfn=operator.add)
    # in-place forms on a private copy (x.copy() op= y), right operand of lower rank / other kind
    for opn, f in [('iadd', operator.iadd), ('isub', operator.isub), ('imul', operator.imul), ('idiv', operator.itruediv)]:
        dom = 'nonzero' if opn == 'idiv' else 'any'
        g = (lambda f: lambda algopy, x, y: f(x.copy(), y))(f)
        add('utpm(2,2) %s utpm(2,)' % opn, [U((2, 2)), U((2,), dom)], g, group='arith', npfn=f)
        add('utpm(2,) %s utpm()' % opn, [U((2,)), U((), dom)], g, group='arith', npfn=f)
        add('utpm(2,) %s utpm(2,)' % opn, [U((2,)), U((2,), dom)], g, group='arith', npfn=f)
        add('utpm(3,2) %s ndarray(2,)' % opn, [U((3, 2)), N((2,), dom)], g, group='arith', npfn=f)
        add('utpm(2,) %s scalar' % opn, [U((2,)), Sc(dom)], g, group='arith', npfn=f)
    # constants of unusual type / magnitude (tagged 'tight': C10 compares the float replay relatively)
    for nm, c in [('float32(3)', np.float32(3)), ('float32(0.1)', np.float32(0.1)), ('int 3', 3), ('int64(7)', np.int64(7)),
                  ('1e-310 (subnormal)', 1e-310), ('1e300', 1e300)]:
        add('utpm div %s' % nm, [U((2,))], (lambda c: lambda algopy, x: x / c)(c), group='arith', npfn=(lambda c: lambda a: a / c)(c), tags=['tight'])
        add('utpm mul %s' % nm, [U((2,))], (lambda c: lambda algopy, x: x * c)(c), group='arith', npfn=(lambda c: lambda a: a * c)(c), tags=['tight'])
        add('%s div utpm' % nm, [U((2,), 'nonzero')], (lambda c: lambda algopy, x: c / x)(c), group='arith', npfn=(lambda c: lambda a: c / a)(c), tags=['tight'])
    # fft / ifft through the algopy.fft dispatchers (exact DFT for n in {1, 2, 4})
    for nm, shp, kw in [('fft', (4,), {}), ('fft(n=2, crop)', (4,), {'n': 2}), ('fft(n=4, pad)', (2,), {'n': 4}),
                        ('fft(axis=0)', (2, 3), {'axis': 0}), ('fft(n=4,axis=0)', (2, 2), {'n': 4, 'axis': 0})]:
        add(nm, [U(shp)], (lambda kw: lambda algopy, x: algopy.fft.fft(x, **kw))(kw), group='fft',
            npfn=(lambda kw: lambda a: np.fft.fft(a, **kw))(kw), meta=dict(kw, inverse=False))
        add('i' + nm, [U(shp)], (lambda kw: lambda algopy, x: algopy.fft.ifft(x, **kw))(kw), group='fft',
            npfn=(lambda kw: lambda a: np.fft.ifft(a, **kw))(kw), meta=dict(kw, inverse=True))
    add('max', [U((3,))], lambda algopy, x: algopy.UTPM.max(x), group='kink', tags=['distinct'])
    add('abs() at 0', [U((2,), dom='zero')], lambda algopy, x: abs(x), group='kink')
    add('absolute at 0', [U((2,), dom='zero')], lambda algopy, x: algopy.absolute(x), group='kink')
    add('sign at 0', [U((2,), dom='zero')], lambda algopy, x: algopy.sign(x), group='kink')
    # methods and classmethods that are thin wrappers (they must copy / allocate like the operators they wrap)
    add('conjugate (real data)', [U((2, 2))], lambda algopy, x: algopy.conjugate(x), npfn=np.conjugate)
    add('conj() (real data)', [U()], lambda algopy, x: x.conj(), npfn=np.conjugate)
    add('conjugate (complex data)', [U(cplx=True)], lambda algopy, x: x.conjugate(), npfn=np.conjugate)
    add('copy()', [U((2, 2))], lambda algopy, x: x.copy(), npfn=np.copy)
    add('clone()', [U()], lambda algopy, x: x.clone(), npfn=np.copy)
    add('fabs()', [U(dom='nonzero')], lambda algopy, x: x.fabs(), group='kink', npfn=np.fabs)
    add('zeros_like()', [U((2, 2))], lambda algopy, x: x.zeros_like(), npfn=np.zeros_like)
    add('ones_like()', [U((2, 2))], lambda algopy, x: x.ones_like(), npfn=np.ones_like)
    for nm, f in (('add', np.add), ('sub', np.subtract), ('mul', np.multiply), ('multiply', np.multiply)):
        add('UTPM.%s(x, y)' % nm, [U(), U()], (lambda nm: lambda algopy, x, y: getattr(algopy.UTPM, nm)(x, y))(nm), group='arith', npfn=f)
    add('UTPM.div(x, y)', [U(), U(dom='nonzero')], lambda algopy, x, y: algopy.UTPM.div(x, y), group='arith', npfn=np.divide)
    add('det', [U((2, 2))], lambda algopy, x: algopy.det(x), group='linalg', npfn=np.linalg.det, tags=['lu'])
    def _set(idx):
        def f(algopy, x, v):
            y = x.copy()
            y[idx] = v
            return y
        return f

    def _npset(idx):
        def f(a, v):
            b = np.array(a, copy=True)
            b[idx] = v
            return b
        return f
    # item assignment (on a copy) through index lists and masks, constant and polynomial values; with P = 2
    # directions and 2 selected entries the direction axis and the index axis have the same length
    add('y[[0,2]] = ndarray', [U((3,)), N((2,))], _set([0, 2]), group='index', npfn=_npset([0, 2]))
    add('y[[2,0]] = utpm', [U((3,)), U((2,))], _set([2, 0]), group='index', npfn=_npset([2, 0]))
    add('y[mask] = ndarray', [U((3,)), N((2,))], _set(np.array([True, False, True])), group='index', npfn=_npset(np.array([True, False, True])))
    add('y[1:] = ndarray', [U((3,)), N((2,))], _set(slice(1, None)), group='index', npfn=_npset(slice(1, None)))
    add('inv', [U((2, 2))], lambda algopy, x: algopy.inv(x), group='linalg', npfn=np.linalg.inv)
    add('solve', [U((2, 2)), U((2, 1))], lambda algopy, a, b: algopy.solve(a, b), group='linalg', npfn=np.linalg.solve)
    add('solve(ndarray,utpm)', [N((2, 2)), U((2, 1))], lambda algopy, a, b: algopy.solve(a, b), group='linalg', npfn=np.linalg.solve)
    add('solve(utpm,ndarray)', [U((2, 2)), N((2, 1))], lambda algopy, a, b: algopy.solve(a, b), group='linalg', npfn=np.linalg.solve)
    return ops


def by_name():
    return {o.name: o for o in catalogue()}


def support(nodes):
    """names of the input variables the given terms depend on"""
    out = set()
    for n in S.cone([t for t in nodes]):
        if n.op == 'var' and not n.a[0].startswith('@'):
            out.add(n.a[0])
    return out


def flat_syms(arr):
    out = []
    for e in np.asarray(arr, dtype=object).ravel():
        e = S.lift(e)
        if isinstance(e, S.SymC):
            out.append(e.re)
            out.append(e.im)
        elif e is not None:
            out.append(e)
    return out
