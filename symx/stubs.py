"""Symbolic stand-ins for the LAPACK-backed factorisations (DESIGN 2.3).

* LU: an explicit model of partial pivoting (getrf); pivot comparisons are
  symbolic branches, so every feasible pivot sequence is explored.
* QR / Cholesky / eigh / eig: parametrised contract stubs.  The harness builds
  the zeroth coefficient A0 *from* its factors and registers them here; the stub
  returns those factors when it is called on exactly that matrix (keyed by the
  node ids of the entries)."""
from fractions import Fraction

import numpy as np

from . import sym as S
from . import npx
from .sym import Sym


def _obj(a):
    return np.array(np.asarray(a).view(np.ndarray), dtype=object)


def _key(a):
    a = _obj(a)
    return (a.shape,) + tuple(S.lift(e).id if isinstance(S.lift(e), Sym) else (S.lift(e).re.id, S.lift(e).im.id)
                               for e in a.ravel())


def lu_factor_model(a, *args, **kw):
    """scipy.linalg.lu_factor on a symbolic matrix: (lu, piv)"""
    a = _obj(a)
    n = a.shape[0]
    if a.shape != (n, n):
        raise S.SymError('lu model: square matrices only')
    for idx in np.ndindex(*a.shape):
        a[idx] = S.lift(a[idx])
    piv = []
    for k in range(n):
        p = k
        for i in range(k + 1, n):
            if bool(a[i, k] * a[i, k] > a[p, k] * a[p, k]):
                p = i
        piv.append(p)
        if p != k:
            tmp = a[k].copy()
            a[k] = a[p]
            a[p] = tmp
        for i in range(k + 1, n):
            a[i, k] = a[i, k] / a[k, k]
            for j in range(k + 1, n):
                a[i, j] = a[i, j] - a[i, k] * a[k, j]
    return npx.SArr(a, float), np.array(piv, dtype=np.int32)


def lu_model(a, *args, **kw):
    """scipy.linalg.lu: (P, L, U) with A = P L U"""
    lu, piv = lu_factor_model(a)
    n = lu.shape[0]
    perm = list(range(n))
    for i, p in enumerate(piv):
        perm[i], perm[p] = perm[p], perm[i]
    # rows of PA' : (L U)[i] = A[perm[i]]  ->  A = P (L U) with P[perm[i], i] = 1
    P = np.zeros((n, n))
    for i in range(n):
        P[perm[i], i] = 1.0
    plain = lu.view(np.ndarray)
    L = np.empty((n, n), dtype=object)
    U = np.empty((n, n), dtype=object)
    for i in range(n):
        for j in range(n):
            L[i, j] = plain[i, j] if i > j else S.const(1 if i == j else 0)
            U[i, j] = plain[i, j] if i <= j else S.const(0)
    return npx.SArr(P, float), npx.SArr(L, float), npx.SArr(U, float)


# ---------------------------------------------------------------------------
# parametrised contract stubs

REGISTRY = {}      # (name, key) -> factors
MATRICES = {}      # (name, key) -> the matrix the factors belong to
ALLOW_ORTHONORMAL_QR = [False]


def clear():
    REGISTRY.clear()
    MATRICES.clear()
    ALLOW_ORTHONORMAL_QR[0] = False


def register(name, A0, factors):
    REGISTRY[(name, _key(A0))] = factors
    MATRICES[(name, _key(A0))] = _obj(A0)


def _differ_possible(ctx, x, y):
    if x.id == y.id:
        return False
    ne = (x != y)
    if not isinstance(ne, S.BoolSym):
        return bool(ne)
    return ctx.feasible(ne) != 'unsat'


def _provably_equal(ctx, a, b):
    """every entry of a equals the corresponding entry of b for ALL values allowed by the current
    path condition (one solver query per entry that is not the same node already)"""
    for x, y in zip(a.ravel(), b.ravel()):
        x, y = S.lift(x), S.lift(y)
        if isinstance(x, Sym) and isinstance(y, Sym):
            if _differ_possible(ctx, x, y):
                return False
        else:
            x, y = S.SymC._lift(x), S.SymC._lift(y)
            if _differ_possible(ctx, x.re, y.re) or _differ_possible(ctx, x.im, y.im):
                return False
    return True


def _lookup(name, a):
    f = REGISTRY.get((name, _key(a)))
    if f is None:
        # the matrix was *computed* by the code under test (e.g. the block Q0^T A1 Q0 that eigh
        # factorises when an eigenvalue of A0 is repeated): it is served when the solver proves it
        # equal, entry by entry, to a matrix the harness built from its factors
        ctx = S.current_ctx()
        a_ = _obj(a)
        if ctx is not None and ctx.mode == 'sym':
            for (nm, key), m in MATRICES.items():
                if nm == name and m.shape == a_.shape and _provably_equal(ctx, a_, m):
                    npx._hit('%s(matched a registered matrix by solver-proved equality)' % name)
                    return REGISTRY[(nm, key)]
        raise S.SymError('%s stub called on a matrix that was not constructed from its factors' % name)
    return f


def qr_stub(a, mode='reduced', *args, **kw):
    if ('qr', _key(a)) not in REGISTRY and ALLOW_ORTHONORMAL_QR[0]:
        try:
            Q, R = _lookup('qr', a)       # (a computed matrix the solver proves equal to a registered one)
        except S.SymError:
            Q, R = _orthonormal_qr(a)
            npx._hit('qr(orthogonal input, unused result)')
        return npx.SArr(_obj(Q), float), npx.SArr(_obj(R), float)
    Q, R = _lookup('qr', a)
    return npx.SArr(_obj(Q), float), npx.SArr(_obj(R), float)


def _orthonormal_qr(a):
    """generic fallback: full QR of a square matrix that the caller knows to be orthogonal
    (UTPM.svd calls qr_full on sqrt(2) Q[:M,:r] only to slice away the result when r = M):
    A = A I is a valid QR factorisation of an orthogonal matrix"""
    a = _obj(a)
    n, m = a.shape
    if n != m:
        raise S.SymError('qr stub: no registered factors and not square')
    I = np.empty((n, n), dtype=object)
    for i in range(n):
        for j in range(n):
            I[i, j] = S.const(1 if i == j else 0)
    return a, I


def scipy_qr_stub(a, *args, **kw):
    Q, R = _lookup('qr_full', a)
    return npx.SArr(_obj(Q), float), npx.SArr(_obj(R), float)


def _closed_form_cholesky(a):
    """generic fallback for n <= 2 when the harness did not construct A0 from its factor:
    L00 = sqrt(a00), L10 = a10 / L00, L11 = sqrt(a11 - L10^2) (sqrt atoms, arguments noted positive)"""
    a = _obj(a)
    n = a.shape[0]
    if a.shape != (n, n) or n > 2:
        raise S.SymError('cholesky stub: no registered factor and n > 2')
    L = np.empty((n, n), dtype=object)
    for i in range(n):
        for j in range(n):
            L[i, j] = S.const(0)
    L[0, 0] = S.lift(a[0, 0]).sqrt()
    if n == 2:
        L[1, 0] = S.lift(a[1, 0]) / L[0, 0]
        L[1, 1] = (S.lift(a[1, 1]) - L[1, 0] * L[1, 0]).sqrt()
    return L


def cholesky_stub(a, *args, **kw):
    if ('cholesky', _key(a)) not in REGISTRY:
        npx._hit('cholesky(closed form, n<=2)')
        ctx = S.current_ctx()
        if ctx is not None:
            ctx.spec_depth += 1
        try:
            return npx.SArr(_closed_form_cholesky(a), float)
        finally:
            if ctx is not None:
                ctx.spec_depth -= 1
    return npx.SArr(_obj(_lookup('cholesky', a)), float)


def eigh_stub(a, *args, **kw):
    a_ = _obj(a)
    if a_.shape == (1, 1):
        return npx.SArr(np.array([a_[0, 0]], dtype=object), float), npx.SArr(np.array([[S.const(1)]], dtype=object), float)
    lam, Q = _lookup('eigh', a)
    return npx.SArr(_obj(lam), float), npx.SArr(_obj(Q), float)


def eig_stub(a, *args, **kw):
    lam, Q = _lookup('eig', a)
    return npx.SArr(_obj(lam), complex), npx.SArr(_obj(Q), complex)


def install():
    npx.STUBS.update({
        'lu_factor': lu_factor_model,
        'lu': lu_model,
        'qr': qr_stub,
        'cholesky': cholesky_stub,
        'eigh': eigh_stub,
        'eig': eig_stub,
    })


install()
