#!/bin/sh
# usage: tools/try_mutant.sh <patch.diff> <ID> [check args...]   -- applies the patch to /repo, runs the check, reverts
patch="$1"; shift
cd /repo || exit 9
if [ -n "$(git status --porcelain -- algopy)" ]; then echo "REPO NOT CLEAN"; exit 7; fi
if ! git apply --check "$patch" 2>/dev/null; then echo "PATCH DOES NOT APPLY: $patch"; exit 8; fi
git apply "$patch"
cd /verif
./check "$@" --no-evidence > /tmp/try_mutant.out 2>&1
code=$?
cut -c1-260 /tmp/try_mutant.out | tail -${TAIL:-5}
echo "exit=$code"
git -C /repo checkout -- .
git -C /repo status --short | head -3
