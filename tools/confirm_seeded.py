#!/usr/bin/env python3
"""Confirm sub-agent mutants in a scratch worktree and record them under /verif/seeded/.

usage: tools/confirm_seeded.py <ID> <m> [--alts C04,C06]
 - scratch worktree of /repo HEAD under /tmp/sw (removed afterwards)
 - apply patch, run the pinned suite (must report 389 passed), run demo.py (must fail),
   revert, run demo.py (must pass)
 - apply the patch to /repo, run the property's quick check (+ alternates), revert
"""
import json
import os
import re
import shutil
import subprocess
import sys

VERIF = '/verif'
MUT = '/tmp/mut'


def sh(cmd, cwd=None, timeout=1800):
    p = subprocess.run(cmd, shell=True, cwd=cwd, capture_output=True, text=True, timeout=timeout)
    return p.returncode, p.stdout + p.stderr


def main():
    pid, m = sys.argv[1], sys.argv[2]
    alts = []
    if '--alts' in sys.argv:
        alts = sys.argv[sys.argv.index('--alts') + 1].split(',')
    tag = ''
    if '--tag' in sys.argv:
        tag = sys.argv[sys.argv.index('--tag') + 1]
    src = os.path.join(MUT, (tag + '_' if tag else '') + pid, m)
    patch = os.path.join(src, 'patch_ported.diff')
    ported = os.path.exists(patch)
    if not ported:
        patch = os.path.join(src, 'patch.diff')
    wt = '/tmp/sw/%s%s_%s' % (tag, pid, m)
    os.makedirs('/tmp/sw', exist_ok=True)
    sh('git -C /repo worktree remove --force %s' % wt)
    rc, out = sh('git -C /repo worktree add --detach %s HEAD' % wt)
    meta = {'property': pid, 'mutant': (tag + '-' if tag else '') + m, 'ported_to_current_head': ported,
            'repo_head': sh('git -C /repo rev-parse --short HEAD')[1].strip()}
    try:
        rc, out = sh('git apply %s' % patch, cwd=wt)
        if rc != 0:
            print('%s %s: PATCH DOES NOT APPLY on current HEAD' % (pid, m))
            return 2
        rc, out = sh('/venv/bin/python -m pytest -q -p no:cacheprovider --continue-on-collection-errors 2>&1 | tail -1', cwd=wt)
        mm = re.search(r'(\d+) passed', out)
        meta['suite_passed_with_change'] = int(mm.group(1)) if mm else None
        shutil.copy(os.path.join(src, 'demo.py'), os.path.join(wt, '_demo_seeded.py'))
        rc1, out1 = sh('/venv/bin/python _demo_seeded.py', cwd=wt)
        meta['demo_exit_with_change'] = rc1
        sh('git checkout -- algopy', cwd=wt)
        rc2, out2 = sh('/venv/bin/python _demo_seeded.py', cwd=wt)
        meta['demo_exit_without_change'] = rc2
    finally:
        sh('git -C /repo worktree remove --force %s' % wt)
    ok = meta.get('suite_passed_with_change') == 389 and meta['demo_exit_with_change'] != 0 and meta['demo_exit_without_change'] == 0
    meta['confirmed'] = ok
    note = os.path.join(src, 'note.txt')
    meta['needs_to_manifest'] = open(note).read().strip() if os.path.exists(note) else ''
    am = os.path.join(src, 'meta.json')
    if os.path.exists(am):
        try:
            a = json.load(open(am))
            meta['summary'] = a.get('summary', '')
            meta['needs_to_manifest'] = meta['needs_to_manifest'] or a.get('needs', '')
        except Exception:
            pass
    # detection by the checks
    detected = {}
    if ok:
        assert sh('git -C /repo status --porcelain -- algopy')[1].strip() == '', 'repo not clean'
        rc, out = sh('git -C /repo apply %s' % patch)
        try:
            for c in [pid] + alts:
                rc, out = sh('./check %s --tier quick --no-evidence' % c, cwd=VERIF)
                v = [l for l in out.splitlines() if l.startswith('VIOLATION')]
                detected[c] = {'exit': rc, 'violation_lines': len(v)}
        finally:
            sh('git -C /repo checkout -- .')
    meta['checks_run'] = detected
    meta['caught_by'] = [c for c, d in detected.items() if d['exit'] == 1 and d['violation_lines'] > 0]
    meta['what_i_ran'] = ('scratch worktree of /repo HEAD: git apply patch; pinned pytest command (389 passed required); demo.py must '
                          'exit non-zero; git checkout; demo.py must exit 0; then patch applied to /repo, ./check <ID> --tier quick, reverted')
    if ok:
        dst = os.path.join(VERIF, 'seeded', '%s-%s%s' % (pid, (tag + '-') if tag else '', m))
        os.makedirs(dst, exist_ok=True)
        shutil.copy(patch, os.path.join(dst, 'patch.diff'))
        shutil.copy(os.path.join(src, 'demo.py'), os.path.join(dst, 'demo.py'))
        json.dump(meta, open(os.path.join(dst, 'meta.json'), 'w'), indent=1)
    print('%s %s: confirmed=%s suite=%s demo_with=%s demo_without=%s caught_by=%s %s' % (
        pid, m, ok, meta.get('suite_passed_with_change'), meta.get('demo_exit_with_change'),
        meta.get('demo_exit_without_change'), meta['caught_by'], {c: d['exit'] for c, d in detected.items()}))
    return 0


if __name__ == '__main__':
    sys.exit(main())
