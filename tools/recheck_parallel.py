#!/usr/bin/env python3
"""Re-run the detection step for recorded seeded changes, several at a time.

usage: tools/recheck_parallel.py [--jobs N] [substring-filter ...] [--exclude=substr]
Every seeded/<dir> gets its own scratch worktree of /repo HEAD under /tmp/sw/rp_<dir> (removed
afterwards): patch.diff must apply, demo.py must FAIL with the patch (the change is live), then the
quick check of the property runs with ALGOPY_REPO pointing at the patched worktree (the checks read
the repository through that variable; /repo itself is untouched), followed by the alternates
recorded in meta.json until one of them reports a replay-confirmed VIOLATION.  meta.json is
updated (checks_run, caught_by, rechecked_at_repo_head).
"""
import json
import os
import shutil
import subprocess
import sys
from concurrent.futures import ThreadPoolExecutor

VERIF = '/verif'
SEEDED = os.path.join(VERIF, 'seeded')


def sh(cmd, cwd=None, timeout=3600, env=None):
    p = subprocess.run(cmd, shell=True, cwd=cwd, capture_output=True, text=True, timeout=timeout, env=env)
    return p.returncode, p.stdout + p.stderr


def one(d, head):
    mp = os.path.join(SEEDED, d, 'meta.json')
    meta = json.load(open(mp))
    patch = os.path.join(SEEDED, d, 'patch.diff')
    wt = '/tmp/sw/rp_%s' % d
    sh('git -C /repo worktree remove --force %s' % wt)
    rc, out = sh('git -C /repo worktree add --detach %s HEAD' % wt)
    try:
        rc, out = sh('git apply %s' % patch, cwd=wt)
        if rc != 0:
            return d, 'does not apply', None
        shutil.copy(os.path.join(SEEDED, d, 'demo.py'), os.path.join(wt, '_demo_seeded.py'))
        rc_demo, _ = sh('/venv/bin/python _demo_seeded.py', cwd=wt, timeout=900)
        if rc_demo == 0 and meta.get('status') != 'neutralised':
            return d, 'demonstration passes', None
        env = dict(os.environ, ALGOPY_REPO=wt)
        detected = {}
        checks = [meta['property']] + [c for c in meta.get('checks_run', {}) if c != meta['property']]
        for c in checks:
            rc, out = sh('./check %s --tier quick --no-evidence' % c, cwd=VERIF, env=env)
            v = [l for l in out.splitlines() if l.startswith('VIOLATION')]
            detected[c] = {'exit': rc, 'violation_lines': len(v)}
            if rc == 1 and v:
                break
        for c in meta.get('checks_run', {}):
            detected.setdefault(c, {'exit': None, 'violation_lines': None, 'note': 'not re-run (an earlier check caught it)'})
        meta['checks_run'] = detected
        meta['caught_by'] = [c for c, r in detected.items() if r['exit'] == 1 and r['violation_lines']]
        meta['rechecked_at_repo_head'] = head
        meta['recheck_how'] = 'scratch worktree of /repo HEAD with the patch applied, checks run with ALGOPY_REPO=<worktree>'
        json.dump(meta, open(mp, 'w'), indent=1)
        return d, 'ok', meta['caught_by']
    finally:
        sh('git -C /repo worktree remove --force %s' % wt)


def main():
    args = [a for a in sys.argv[1:] if not a.startswith('--')]
    jobs = 4
    for i, a in enumerate(sys.argv):
        if a == '--jobs':
            jobs = int(sys.argv[i + 1])
            args = [x for x in args if x != sys.argv[i + 1]]
    dirs = sorted(d for d in os.listdir(SEEDED) if os.path.isdir(os.path.join(SEEDED, d)))
    if args:
        dirs = [d for d in dirs if any(a in d for a in args)]
    for x in [a.split('=', 1)[1] for a in sys.argv[1:] if a.startswith('--exclude=')]:
        dirs = [d for d in dirs if x not in d]
    head = sh('git -C /repo rev-parse --short HEAD')[1].strip()
    os.makedirs('/tmp/sw', exist_ok=True)
    missed = []
    with ThreadPoolExecutor(max_workers=jobs) as ex:
        for d, status, caught in ex.map(lambda d: one(d, head), dirs):
            print('%s: %s caught_by=%s' % (d, status, caught), flush=True)
            if status != 'ok' or not caught:
                missed.append('%s (%s)' % (d, status))
    print('MISSED: %s' % missed)
    return 0


if __name__ == '__main__':
    sys.exit(main())
