#!/usr/bin/env python3
"""Re-run the detection step for recorded seeded changes (after the checks or /repo changed).

usage: tools/recheck_seeded.py [substring-filter ...] [--all-checks] [--only-missed]
For every /verif/seeded/<dir>: apply patch.diff to /repo (must apply cleanly to the current
HEAD and /repo must be clean), run the quick check of the property (plus the alternates
recorded in meta.json), revert, and update meta.json (checks_run, caught_by).
"""
import json
import os
import subprocess
import sys

VERIF = '/verif'
SEEDED = os.path.join(VERIF, 'seeded')


def sh(cmd, cwd=None, timeout=3600):
    p = subprocess.run(cmd, shell=True, cwd=cwd, capture_output=True, text=True, timeout=timeout)
    return p.returncode, p.stdout + p.stderr


def main():
    args = [a for a in sys.argv[1:] if not a.startswith('--')]
    only_missed = '--only-missed' in sys.argv
    demo_only = '--demo-only' in sys.argv
    dirs = sorted(d for d in os.listdir(SEEDED) if os.path.isdir(os.path.join(SEEDED, d)))
    if args:
        dirs = [d for d in dirs if any(a in d for a in args)]
    assert sh('git -C /repo status --porcelain -- algopy')[1].strip() == '', 'repo not clean'
    head = sh('git -C /repo rev-parse --short HEAD')[1].strip()
    missed = []
    for d in dirs:
        mp = os.path.join(SEEDED, d, 'meta.json')
        meta = json.load(open(mp))
        if only_missed and meta.get('caught_by'):
            continue
        patch = os.path.join(SEEDED, d, 'patch.diff')
        rc, out = sh('git -C /repo apply --check %s' % patch)
        if rc != 0:
            print('%s: patch does not apply to HEAD %s' % (d, head))
            missed.append(d + ' (does not apply)')
            continue
        sh('git -C /repo apply %s' % patch)
        # the change must be live: its demonstration fails with the patch applied (a hunk that
        # drifted into an identical neighbouring block would leave the demonstration passing)
        import shutil
        shutil.copy(os.path.join(SEEDED, d, 'demo.py'), '/repo/_demo_seeded.py')
        rc_demo, _ = sh('/venv/bin/python _demo_seeded.py', cwd='/repo', timeout=600)
        os.remove('/repo/_demo_seeded.py')
        if rc_demo == 0 and meta.get('status') != 'neutralised':
            sh('git -C /repo checkout -- .')
            print('%s: patch applies but its demonstration PASSES (misapplied hunk or neutralised)' % d, flush=True)
            missed.append(d + ' (demonstration passes)')
            continue
        if demo_only:
            sh('git -C /repo checkout -- .')
            print('%s: live (demonstration fails with the patch)' % d, flush=True)
            continue
        detected = {}
        try:
            checks = [meta['property']] + [c for c in meta.get('checks_run', {}) if c != meta['property']]
            for c in checks:
                rc, out = sh('./check %s --tier quick --no-evidence' % c, cwd=VERIF)
                v = [l for l in out.splitlines() if l.startswith('VIOLATION')]
                detected[c] = {'exit': rc, 'violation_lines': len(v)}
                if rc == 1 and v and c == meta['property']:
                    break
        finally:
            sh('git -C /repo checkout -- .')
        for c in meta.get('checks_run', {}):
            detected.setdefault(c, meta['checks_run'][c] if False else {'exit': None, 'violation_lines': None, 'note': 'not re-run (primary check caught it)'})
        meta['checks_run'] = detected
        meta['caught_by'] = [c for c, r in detected.items() if r['exit'] == 1 and r['violation_lines']]
        meta['rechecked_at_repo_head'] = head
        json.dump(meta, open(mp, 'w'), indent=1)
        print('%s: caught_by=%s %s' % (d, meta['caught_by'], {c: r['exit'] for c, r in detected.items()}), flush=True)
        if not meta['caught_by']:
            missed.append(d)
    print('MISSED: %s' % missed)
    return 0


if __name__ == '__main__':
    sys.exit(main())
