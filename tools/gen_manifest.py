#!/usr/bin/env python3
"""regenerate MANIFEST.json from the table below (keeps it valid at all times)"""
import json, os
HERE = os.path.dirname(os.path.dirname(os.path.abspath(__file__)))
props = [json.loads(l) for l in open(os.path.join(HERE, 'properties.jsonl'))]

TECH = 'symbolic execution of the real code over object arrays + z3 QF_NRA (unsat for all values within bounds; sat replayed on float code)'

BUILT = ['C01', 'C02', 'C03', 'C04', 'C05', 'C06', 'C07', 'C08', 'C09', 'C10', 'C13', 'C14', 'C11', 'C12', 'C15', 'C16', 'C17']
FLOATS = 'floats read as reals (rounding/NaN/overflow outside the claim); definedness assumed (non-zero divisors, arguments in the open domain); '
TEXTS = {
 'C01': ('for each overloaded function and each (D,P,shape) in the bound the real recurrences run on fully symbolic (real and complex) coefficients and every output '
         'coefficient is proved (z3 unsat) equal to the Taylor-theorem composition oracle for ALL coefficient values with x0 in the domain; kinked functions on every sign/order path',
         FLOATS + 'D<=5 quick / <=8 thorough, P<=3, shapes up to (2,2); special functions are uninterpreted atoms with textbook derivative rules', '4 C01'),
 'C02': ('every operator x operand kind x position x broadcast shape pair in the bound is executed on symbolic operands; sums/differences/Cauchy products and the quotient\'s defining equation z*y=x are proved '
         'for all real/complex values; reflected and in-place forms proved equal to the binary expression; logical result dtype and imaginary parts checked',
         FLOATS + 'D<=3 quick / <=5 thorough, P<=2, shapes from a fixed list incl. constant arrays with more dims than the polynomial; complex scalar exponents not covered', '4 C02'),
 'C03': ('each program of the catalogue (one per differentiable operation, buffers/views, reductions, dot/outer ranks, inv/solve/det/logdet) and seeded random compositions is recorded by the real tracer on a symbolic Taylor curve; '
         'the reverse sweep runs with a symbolic adjoint seed and the adjoint identity <xbar,v> = <ybar,F\'(x)v> mod t^D is proved at every order for a symbolic direction v, with F\'(x)v from symbolic differentiation of the forward DAG; exceptions in existing pullbacks are violations',
         FLOATS + 'programs enumerated (catalogue + 12 quick / 160 thorough random), D<=2 quick / <=3(4) thorough, P<=2; LAPACK factorisations via the LU pivoting model (det/logdet); known findings listed in known_findings.txt', '4 C03'),
 'C04': ('each driver (gradient, jacobian, jac_vec, vec_jac, hessian, hess_vec, vec_hess, vec_hess_vec, jacobian(Taylor argument)) on graphs recorded at an independent symbolic point/kind is proved equal to symbolic first/second derivatives of the direct evaluation of the program at the symbolic evaluation point; integer-typed points included',
         FLOATS + 'programs R^3->R^M from the catalogue + random; recording kinds ndarray / UTPM(1,1) / UTPM(2,2)', '4 C04'),
 'C05': ('values seen through tracer nodes while recording and every replay (new independent symbolic inputs of any kind/degree, sequences of up to 3 replays) are proved equal to the direct evaluation of the program; structural clause asserted on each recorded graph',
         FLOATS + 'programs enumerated; structural clause is a per-run assertion, not a solver query', '4 C05'),
 'C06': ('for each program and history (all sequences of length <=2 over forward/reverse/driver/second-graph calls + sampled longer ones) every call on the long-lived graph is proved equal to the same call on a fresh graph; forward values of all nodes are proved unchanged by a reverse sweep; earlier results must still be intact at the end',
         FLOATS + 'histories enumerated up to length 2 (3 thorough) + seeded samples up to 5', '4 C06'),
 'C07': ('dot/outer (every operand rank and kind combination in the bound)/trace proved equal to NumPy on coefficient slices convolved; inv and solve proved through A inv(A)=I, inv(A) A=I, A X=B modulo t^D; det proved equal to the Leibniz polynomial of A(t) on every pivot path of a symbolic partial-pivoting LU; logdet orders>=1 against log(det(t)); expm against the Pade-7 defining equation',
         FLOATS + 'sizes N<=3, D<=4 (inv 2x2 D<=6), P<=2; numpy.linalg.inv/solve replaced by exact cofactor formulas; lu_factor by a pivoting model validated against LAPACK on the float build; logdet order 0 numeric only; det(A0)>0 for logdet', '4 C07'),
 'C08': ('zeroth coefficients are constructed from their factors (rational parametrisation of O(2)/SO(3), free triangular/diagonal entries), higher coefficients free symbols; the real recurrences run and QR=A, Q^TQ=I, R upper (reduced square/tall/wide, full), LL^T=A, PLU=A with unit-lower L / upper U / constant permutation (lu, lu2, lu_factor; all pivot paths), A=Q diag(lambda) Q^T with Q^TQ=I and ascending lambda_0 (distinct eigenvalues), AQ=Q diag(lambda) (eig, D<=2) are proved modulo t^D',
         FLOATS + 'LAPACK on A0 is a contract stub returning the factors A0 was built from (LU: explicit pivoting model); shapes 2x2, 3x2, 2x3, 3x3; D<=3 quick / <=4-5 thorough; repeated eigenvalues and svd are NOT covered (stated in DESIGN.md)', '4 C08'),
 'C09': ('generic polynomial programs with SYMBOLIC coefficients, point and direction (plus smooth programs) are evaluated with the real UTPM arithmetic on the init_* seeds; extract_jacobian / extract_jac_vec / extract_hessian (N<=5: triangular index arithmetic) / extract_hess_vec are proved equal to symbolic partial derivatives; extract_tensor at concrete integer points: |Gamma-interpolated value - exact partial/alpha!| <= 1e-9 proved for ALL coefficient vectors in [-1,1] (linear real arithmetic)',
         FLOATS + 'N<=4(5), polynomial degree <=3 quick / 4 thorough, tensor order d<=4(5); Gamma is a float table (tolerance 1e-9)', '4 C09'),
 'C10': ('zeroth coefficient, shape, len, size, ndim of every catalogued operation proved equal to NumPy applied to the zeroth-coefficient symbolic arrays per direction (different base points); comparison operators: on every explored path the returned truth value is proved equal to the all-elements NumPy comparison; branches agree between ndarray/UTPM/Function; algopy.<f> on plain symbolic arrays == numpy/scipy.<f>',
         FLOATS + 'operation catalogue symx/ops.py; LAPACK-backed zeroth coefficients compared with exact inverse/Cramer (stub on both sides)', '4 C10'),
 'C13': ('operand elements are distinct symbols: getitem for ~150 (quick) / ~1800 (thorough) index expressions from a grammar (ints, negative ints, slices with +-steps, Ellipsis, newaxis, tuples) on 1-3-D shapes, write-through-view, setitem with UTPM/broadcast UTPM/ndarray/scalar right-hand sides, reshape, transpose, sum(axis), tile, diag, tril/triu(k), trace, neg, conjugate/real/imag (complex), zeros/ones(-like), fft/ifft (n in {2,4}, any axis) proved slice-wise equal to NumPy; shares_memory compared with NumPy',
         'index expressions/shapes enumerated (seeded); empty selections excluded from setitem; fft via exact DFT matrix stub for n | 4', '4 C13'),
 'C14': ('every catalogued operation leaves its arguments term-for-term unchanged; x op x, x op= x, x op= view-of-x (x[::-1], x.T, x[0], x[0:1]) proved equal to the same operation with an independent copy for all coefficient values (+,-,*,/, **, dot, outer, //); recording, re-evaluation and reverse sweeps leave user inputs and seeds unchanged',
         FLOATS + 'catalogue symx/ops.py; D<=3 quick / 4 thorough, P=2', '4 C14'),
 'C11': ('each catalogued operation is run on P directions with independent symbols (incl. independent base points) and on each direction alone; equality of all coefficients is decided for all values; '
         'term support shows no symbol of another direction occurs', FLOATS + 'operation catalogue in symx/ops.py, D<=3/4, P<=2/3', '4 C11'),
 'C12': ("each catalogued operation at degree D and at every D'<D on the truncated symbolic input: first D' coefficients proved equal; coefficient d shown to mention no input symbol of order > d",
         FLOATS + 'operation catalogue in symx/ops.py, D<=4 quick / <=6 thorough', '4 C12'),
 'C15': ('tables from the real generator for every (N,d) in the bound; completeness decided over symbolic integer multi-indices (LIA), reconstruction of the degree-d part of EVERY polynomial decided over symbolic coefficient vectors (LRA) with tolerance 1e-9',
         'Gamma is a float table (exact binary values, tolerance 1e-9); (N,d) with binomial(N+d-1,d)<=21 quick / <=56 thorough', '4 C15'),
 'C16': ('the closed forms run on a symbolic point; order 0 == base function and order k+1 == d/dx(order k) proved for all x in the declared domain with an independent DAG differentiator; piecewise functions on every path; out= aliasing',
         FLOATS + 'n<=5 quick / <=9 thorough; (a,b,m) from small grids; tan/tanh not exported without mpmath', '4 C16'),
 'C17': ('round trips executed on arrays of distinct symbols: output term == input symbol at the specified position; pivot helpers on every feasible pivot path of a symbolic LU (all N! paths, N<=3 quick / 4 thorough) against P L U = A and Leibniz det, plus all N! pivot vectors enumerated for N<=4/6',
         FLOATS + 'shapes <=3-D, D<=4, P<=3', '4 C17'),
}
CLAIMED = {k: TEXTS[k] for k in BUILT}
NOT_YET = 'check not built yet in this session (work in progress; the property is within reach of the technique, see DESIGN.md section 4)'

checks = []
na = []
for p in props:
    pid = p['id']
    if pid in CLAIMED:
        text, note, ref = CLAIMED[pid]
        checks.append({
            'property_id': pid,
            'quick_cmd': './check %s --tier quick' % pid,
            'thorough_cmd': './check %s --tier thorough' % pid,
            'evidence_file': 'evidence/%s.json' % pid,
            'replay_cmd_template': './check %s --replay {path}' % pid,
            'engine': 'symx',
            'level_claimed': {'category': 'other', 'text': text, 'design_ref': 'DESIGN.md ' + ref},
            'level_note': note,
            'technique': TECH,
        })
    else:
        na.append({'property_id': pid, 'reason': NA.get(pid, NOT_YET) if 'NA' in globals() else NOT_YET})

m = {
 'version': 1,
 'setup_cmd': 'sh ./setup.sh',
 'hooks': {'guard': 'ALGOPY_VERIF', 'enable': 'none needed: all instrumentation is installed from the harness by replacing module globals (no source hooks)',
           'baseline_off_cmd': 'cd /repo && /venv/bin/python -m pytest -ra -q -p no:cacheprovider --timeout=900 --continue-on-collection-errors',
           'source_commits': [], 'add_only': True},
 'engines': [{'name': 'symx', 'path': 'symx/', 'serves_properties': [c['property_id'] for c in checks],
              'kind_free_text': 'dynamic symbolic execution of the real Python/NumPy code on object arrays of symbolic reals; z3 (QF_NRA) decides; /usr/bin/z3 4.8.12 and cvc5 cross-check unsat verdicts'}],
 'checks': checks,
 'not_applicable': na,
 'notes': 'exit 0 = every obligation unsat; exit 1 + VIOLATION line = replay-confirmed counterexample; exit 2 = inconclusive (never a pass). known_findings.txt lists recorded genuine defects.',
}
json.dump(m, open(os.path.join(HERE, 'MANIFEST.json'), 'w'), indent=1)
print('claimed', [c['property_id'] for c in checks], 'n/a', len(na))
