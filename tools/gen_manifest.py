#!/usr/bin/env python3
"""regenerate MANIFEST.json from the table below (keeps it valid at all times)"""
import json, os
HERE = os.path.dirname(os.path.dirname(os.path.abspath(__file__)))
props = [json.loads(l) for l in open(os.path.join(HERE, 'properties.jsonl'))]

TECH = 'symbolic execution of the real code over object arrays + z3 QF_NRA (unsat for all values within bounds; sat replayed on float code)'

CLAIMED = {
 # id: (level text, level note, design ref)
 'C01': ('Bounded symbolic verification: for each overloaded function and each (D,P,shape) in the bound, the real '
         'recurrences are executed on fully symbolic coefficients and every output coefficient is proved (z3 unsat) equal '
         'to the Taylor-theorem composition oracle for ALL real coefficient values with x0 in the domain; kinked functions '
         'on every sign/order path.',
         'floats read as reals; D<=5 quick / <=8 thorough, P<=3, shapes up to (2,2); definedness (x0 in open domain); '
         'special functions as uninterpreted atoms with textbook derivative rules; stubs validated numerically against the float build each run',
         '4 C01'),
}
NOT_YET = 'check not built yet in this session (work in progress; the property is within reach of the technique, see DESIGN.md section 4)'

checks = []
na = []
for p in props:
    pid = p['id']
    if pid in CLAIMED:
        text, note, ref = CLAIMED[pid]
        checks.append({
            'property_id': pid,
            'quick_cmd': './check %s --tier quick' % pid,
            'thorough_cmd': './check %s --tier thorough' % pid,
            'evidence_file': 'evidence/%s.json' % pid,
            'replay_cmd_template': './check %s --replay {path}' % pid,
            'engine': 'symx',
            'level_claimed': {'category': 'other', 'text': text, 'design_ref': 'DESIGN.md ' + ref},
            'level_note': note,
            'technique': TECH,
        })
    else:
        na.append({'property_id': pid, 'reason': NA.get(pid, NOT_YET) if 'NA' in globals() else NOT_YET})

m = {
 'version': 1,
 'setup_cmd': 'sh ./setup.sh',
 'hooks': {'guard': 'ALGOPY_VERIF', 'enable': 'none needed: all instrumentation is installed from the harness by replacing module globals (no source hooks)',
           'baseline_off_cmd': 'cd /repo && /venv/bin/python -m pytest -ra -q -p no:cacheprovider --timeout=900 --continue-on-collection-errors',
           'source_commits': [], 'add_only': True},
 'engines': [{'name': 'symx', 'path': 'symx/', 'serves_properties': [c['property_id'] for c in checks],
              'kind_free_text': 'dynamic symbolic execution of the real Python/NumPy code on object arrays of symbolic reals; z3 (QF_NRA) decides; /usr/bin/z3 4.8.12 and cvc5 cross-check unsat verdicts'}],
 'checks': checks,
 'not_applicable': na,
 'notes': 'exit 0 = every obligation unsat; exit 1 + VIOLATION line = replay-confirmed counterexample; exit 2 = inconclusive (never a pass). known_findings.txt lists recorded genuine defects.',
}
json.dump(m, open(os.path.join(HERE, 'MANIFEST.json'), 'w'), indent=1)
print('claimed', [c['property_id'] for c in checks], 'n/a', len(na))
