#!/usr/bin/env python3
"""regenerate MANIFEST.json from the table below (keeps it valid at all times)"""
import json, os
HERE = os.path.dirname(os.path.dirname(os.path.abspath(__file__)))
props = [json.loads(l) for l in open(os.path.join(HERE, 'properties.jsonl'))]

TECH = 'symbolic execution of the real code over object arrays + z3 QF_NRA (unsat for all values within bounds; sat replayed on float code)'

BUILT = ['C01', 'C02', 'C03', 'C04', 'C05', 'C06', 'C07', 'C08', 'C09', 'C10', 'C13', 'C14', 'C11', 'C12', 'C15', 'C16', 'C17']
FLOATS = 'floats read as reals (rounding/NaN/overflow outside the claim); definedness assumed (non-zero divisors, arguments in the open domain); '
TEXTS = {
 'C01': ('for each overloaded function and each (D,P,shape) in the bound the real recurrences run on fully symbolic (real and, where NumPy supports it, complex) coefficients and every output '
         'coefficient is proved (z3 unsat) equal to the Taylor-theorem composition oracle for ALL coefficient values with x0 in the domain; kinked functions on every sign/order path; definedness queries '
         '(no division by a quantity that can vanish inside the domain; masked 0/0 decided by a jump test)',
         FLOATS + 'D<=5 quick / <=14 thorough (arcsin/arccos 12) plus D=23 units, P<=4, shapes (), (2,), (2,2), (2,3), (1,2,1), transposed views; integer powers -6..13, numpy-integer and integer-valued float exponents; '
         'special functions are uninterpreted atoms with textbook derivative rules; one known finding (integer-typed coefficient arrays) listed in known_findings.txt', '4 C01'),
 'C02': ('every operator x operand kind (UTPM, ndarray, python/numpy scalars of 8 kinds, 0-d arrays) x position x broadcast shape pair in the bound is executed on symbolic operands; sums/differences/Cauchy products and the '
         'quotient\'s defining equation z*y=x are proved for all real/complex values; reflected and in-place forms (incl. right operands overlapping the left one) proved equal to the binary expression; logical result dtype and imaginary parts checked',
         FLOATS + 'D<=3 quick / <=6 (P<=3), 10 (P=2), 14 (P=1) thorough plus D=17 units; operands scaled by 2^+-600 validated in exact rational arithmetic; arrays of exponents (broadcast shape for every P, whole-number entries with any base) symbolic; complex scalar exponents and exponents 2**31-1 (must return within 60 s) are float-decided only', '4 C02'),
 'C03': ('each program of the catalogue (~300: arithmetic with constants either side, elementary/special functions, basic and advanced indexing, buffers and views, paused recording, reshape/transpose/tile, reductions, dot/outer ranks, '
         'inv/solve/det/logdet/cholesky/lu, qr/qr_full/cholesky/eigh/eig/svd on factor-built inputs, fft/ifft) and seeded random compositions is recorded by the real tracer; the reverse sweep runs with a symbolic adjoint seed and the adjoint identity '
         '<xbar,v> = <ybar,F\'(x)v> mod t^D is proved at every order for a symbolic direction v, with F\'(x)v from symbolic differentiation of the forward DAG; two routes (record elsewhere + re-evaluate, sweep right after recording), '
         'fan-out wrappers, a second sweep; exceptions in existing pullbacks are violations',
         FLOATS + 'programs enumerated (catalogue + 12 quick / 160 thorough random), D<=2-3 quick / <=3(4) thorough, P<=2; LAPACK factorisations via contract stubs / the LU pivoting model; svd: all outputs only at order 0, single outputs at order 1', '4 C03'),
 'C04': ('each driver (gradient, jacobian, jac_vec, vec_jac, hessian, hess_vec, vec_hess, vec_hess_vec, jacobian(Taylor argument)) on graphs recorded at an independent symbolic point/kind is proved equal to symbolic first/second derivatives '
         'of the direct evaluation of the program at the symbolic evaluation point; integer-typed points; results kept across later calls',
         FLOATS + 'programs R^3->R^M: fixed lists, every 1-D buffer/indexing program of the catalogue, random compositions; recording kinds ndarray / UTPM(1,1) / UTPM(2,2)', '4 C04'),
 'C05': ('values seen through tracer nodes while recording and every replay (new independent symbolic inputs of any kind/degree, sequences of up to 3 replays, incl. factorisation programs on factor-built points) are proved equal to the direct '
         'evaluation of the program; results and inputs of earlier replays are re-checked after the later ones; structural clause asserted on each recorded graph',
         FLOATS + 'programs enumerated (catalogue + 8 / 900 random); structural clause is a per-run assertion, not a solver query; plain-array accumulators handed out as results and all 16 record/replay combinations of scalar kinds (python float, numpy.float64, 0-d array, 0-d polynomial) are float-decided', '4 C05'),
 'C06': ('for each program and history (all sequences of length <=2 (3) over forward/reverse/driver/second-graph/re-used-argument-object calls + sampled longer ones) every call on the long-lived graph is proved equal to the same call on a fresh graph; '
         'forward values of all nodes are proved unchanged by a reverse sweep; earlier results must still be intact at the end; every catalogue program through one forward evaluation + two sweeps',
         FLOATS + 'histories enumerated up to length 2 (3 thorough) + seeded samples up to 5', '4 C06'),
 'C07': ('dot/outer (every operand rank and kind combination in the bound, real and complex)/trace proved equal to NumPy on coefficient slices convolved; inv and solve proved through A inv(A)=I, inv(A) A=I, A X=B modulo t^D; det proved equal to the '
         'Leibniz polynomial of A(t) on every pivot path of a symbolic partial-pivoting LU; logdet orders>=1 against log(det(t)); expm_pade(A, q), q in {3,5,7,9,13}, against the defining equation with closed-form Pade coefficients; '
         'C- and Fortran-ordered operands unchanged',
         FLOATS + 'sizes N<=3, D<=4-5 (inv 2x2 D<=6), P<=2; numpy.linalg.inv/solve replaced by exact cofactor formulas; lu_factor by a pivoting model validated against LAPACK on the float build; logdet order 0 numeric only; det(A0)>0 for logdet; expm vs the true exponential not covered', '4 C07'),
 'C08': ('zeroth coefficients are constructed from their factors (rational parametrisation of O(2)/SO(3), free triangular/diagonal entries), higher coefficients free symbols; the real recurrences run and QR=A, Q^TQ=I, R upper (reduced square/tall/wide, full), '
         'LL^T=A, PLU=A (lu, lu2, lu_factor; all pivot paths), A=Q diag(lambda) Q^T with Q^TQ=I and ascending lambda_0 (distinct eigenvalues; one eigenvalue repeated at orders 0..k-1 splitting at order k<=4; triple eigenvalue 3x3; repeated pair inside 3x3), '
         'AQ=Q diag(lambda) (eig, D<=2, real/complex/Hermitian), U diag(s) V^T=A with orthogonal U, V (svd 2x2, 2x3, 3x2, D<=2) are proved modulo t^D',
         FLOATS + 'LAPACK on A0 (and on blocks the code computes) is a contract stub returning the factors the matrix was built from, matched by node identity or by solver-proved equality (LU: explicit pivoting model); D<=3 quick / <=4-5 thorough; not covered: partial splitting of a triple eigenvalue, svd at D>=3', '4 C08'),
 'C09': ('generic polynomial programs with SYMBOLIC coefficients, point and direction (plus smooth programs) are evaluated with the real UTPM arithmetic on the init_* seeds; extract_jacobian / extract_jac_vec / extract_hessian / extract_hess_vec are proved equal to symbolic partial derivatives; '
         'extract_tensor at concrete integer points (float, int, int32, list seeds; programs scaled by 3e-14 / 1e-20): |Gamma-interpolated value - exact partial/alpha!| <= 1e-9 (relative to the scale) proved for ALL coefficient vectors in [-1,1] (linear real arithmetic)',
         FLOATS + 'N<=4(6), polynomial degree <=3 quick / 6 thorough, tensor order d<=4(6); Gamma is a float table (tolerance 1e-9)', '4 C09'),
 'C10': ('zeroth coefficient, shape, len, size, ndim of every catalogued operation (~185) proved equal to NumPy applied to the zeroth-coefficient symbolic arrays per direction (different base points); comparison operators: on every explored path the returned truth value is proved equal to the all-elements NumPy comparison; '
         'branches agree between ndarray/UTPM/Function; algopy.<f> on plain symbolic arrays == numpy/scipy.<f>',
         FLOATS + 'operation catalogue symx/ops.py; LAPACK-backed zeroth coefficients compared with exact inverse/Cramer (stub on both sides)', '4 C10'),
 'C13': ('operand elements are distinct symbols: getitem for 300 (quick) / 6000 (thorough) index expressions from a grammar (ints, numpy ints, negative ints, slices with +-steps, Ellipsis, newaxis, tuples) on 6 / 10 shapes, write-through-view, setitem with UTPM/broadcast UTPM/ndarray/scalar/own-view right-hand sides, reshape, transpose, sum(axis), tile, diag(k), tril/triu(k), trace, neg, conjugate/real/imag (complex), zeros/ones(-like), fft/ifft (n in {2,4}, any axis) proved slice-wise equal to NumPy; shares_memory compared with NumPy',
         'index expressions/shapes enumerated (seeded), incl. index arrays separated by slices / Ellipsis, right-hand sides NumPy rejects (must raise for every P), sum axes out of range and tuples of axes; empty selections excluded from setitem; fft via exact DFT matrix stub for n | 4', '4 C13'),
 'C14': ('every catalogued operation leaves its arguments term-for-term unchanged (C- and Fortran-ordered matrices) and returns results that share no memory with them; x op x, x op= x, x op= view-of-x (x[::-1], x.T, x[0], x[0:1], x.data[0,0]), two views of one parent, x.shift(s, out=x) proved equal to the same operation with an independent copy for all coefficient values (+,-,*,/, **, dot, outer, //); '
         'recording, re-evaluation and reverse sweeps leave user inputs and seeds unchanged',
         FLOATS + 'catalogue symx/ops.py; D<=3 quick / 6, 9 thorough, P<=5; the reverse rule of every catalogued operation run on the caller\'s own seed object; constants of the caller (wrapped arrays, polynomial operands, read-only arrays) untouched by re-evaluation and sweeps', '4 C14'),
 'C11': ('each catalogued operation is run on P directions with independent symbols (incl. independent base points) and on each direction alone; equality of all coefficients is decided for all values; term support shows no symbol of another direction occurs; '
         'reverse sweeps, eigh/eigh1 with a repeated eigenvalue, qr with a rank-deficient base point and // with a 0/0 in one direction only',
         FLOATS + 'operation catalogue in symx/ops.py, D3,P2 quick / D5,P3 + D8,P2 + D3,P5 thorough', '4 C11'),
 'C12': ("each catalogued operation at degree D and at every D'<D on the truncated symbolic input: first D' coefficients proved equal; coefficient d shown to mention no input symbol of order > d; reverse sweeps, shift, // with one singular entry, reused out= buffers",
         FLOATS + 'operation catalogue in symx/ops.py, D=4 quick / 8, 11 thorough, D=17 units', '4 C12'),
 'C15': ('tables from the real generator for every (N,d) in the bound; completeness decided over symbolic integer multi-indices (LIA), reconstruction of the degree-d part of EVERY polynomial decided over symbolic coefficient vectors (LRA) with tolerance 1e-9 (1e-4 at d >= 12); the consumers init_tensor / extract_tensor end to end',
         'Gamma is a float table (exact binary values); (N,d) with binomial(N+d-1,d)<=21 quick / <=56 thorough, d<10, plus (1,12..18), (2,12..17)', '4 C15'),
 'C16': ('the closed forms run on a symbolic point; order 0 == base function and order k+1 == d/dx(order k) proved for all x in the declared domain with an independent DAG differentiator; piecewise functions on every path; out= aliasing; orders requested in any sequence; definedness queries',
         FLOATS + 'n<=5 quick / <=20 thorough (23 for the functions with exact integer tables; hyperu 9); (a,b,m) from small grids; tan/tanh not exported without mpmath', '4 C16'),
 'C17': ('round trips executed on arrays of distinct symbols: output term == input symbol at the specified position (seeds of every shape, containers incl. nested lists, mixed real/complex/plain-number entries, blocks of different degree, shift); pivot helpers on every feasible pivot path of a symbolic LU (N<=3 quick / 4 thorough) against P L U = A and Leibniz det, plus all N! pivot vectors enumerated for N<=4/6',
         FLOATS + 'shapes <=4-D, D<=6, P<=4', '4 C17'),
}
CLAIMED = {k: TEXTS[k] for k in BUILT}
NOT_YET = 'check not built yet in this session (work in progress; the property is within reach of the technique, see DESIGN.md section 4)'

checks = []
na = []
for p in props:
    pid = p['id']
    if pid in CLAIMED:
        text, note, ref = CLAIMED[pid]
        checks.append({
            'property_id': pid,
            'quick_cmd': './check %s --tier quick' % pid,
            'thorough_cmd': './check %s --tier thorough' % pid,
            'evidence_file': 'evidence/%s.json' % pid,
            'replay_cmd_template': './check %s --replay {path}' % pid,
            'engine': 'symx',
            'level_claimed': {'category': 'other', 'text': text, 'design_ref': 'DESIGN.md ' + ref},
            'level_note': note,
            'technique': TECH,
        })
    else:
        na.append({'property_id': pid, 'reason': NA.get(pid, NOT_YET) if 'NA' in globals() else NOT_YET})

m = {
 'version': 1,
 'setup_cmd': 'sh ./setup.sh',
 'hooks': {'guard': 'ALGOPY_VERIF', 'enable': 'none needed: all instrumentation is installed from the harness by replacing module globals (no source hooks)',
           'baseline_off_cmd': 'cd /repo && /venv/bin/python -m pytest -ra -q -p no:cacheprovider --timeout=900 --continue-on-collection-errors',
           'source_commits': [], 'add_only': True},
 'engines': [{'name': 'symx', 'path': 'symx/', 'serves_properties': [c['property_id'] for c in checks],
              'kind_free_text': 'dynamic symbolic execution of the real Python/NumPy code on object arrays of symbolic reals; z3 (QF_NRA) decides; /usr/bin/z3 4.8.12 and cvc5 cross-check unsat verdicts'}],
 'checks': checks,
 'not_applicable': na,
 'notes': 'exit 0 = every obligation unsat; exit 1 + VIOLATION line = replay-confirmed counterexample; exit 2 = inconclusive (never a pass). known_findings.txt lists recorded genuine defects.',
}
json.dump(m, open(os.path.join(HERE, 'MANIFEST.json'), 'w'), indent=1)
print('claimed', [c['property_id'] for c in checks], 'n/a', len(na))
