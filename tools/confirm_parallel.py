#!/usr/bin/env python3
"""Confirm sub-agent mutants and record them under /verif/seeded/, several at a time.

usage: tools/confirm_parallel.py --tag r6 [--jobs N] [ID ...]
For every /tmp/mut/<tag>_<ID>/m<k>: a scratch worktree of /repo HEAD under /tmp/sw (removed
afterwards); the patch must apply, the pinned suite must still report 389 passed, demo.py must
fail with the patch and pass without it; then the quick check of the property and of the
alternates run with ALGOPY_REPO=<patched worktree> (/repo itself is not touched).
"""
import json
import os
import re
import shutil
import subprocess
import sys
from concurrent.futures import ThreadPoolExecutor

VERIF = '/verif'
MUT = '/tmp/mut'
ALTS = {'C01': ['C02', 'C16'], 'C02': ['C01', 'C14'], 'C03': ['C04', 'C06'], 'C04': ['C03', 'C06'], 'C05': ['C03', 'C06'], 'C06': ['C03', 'C14'],
        'C07': ['C10', 'C14'], 'C08': ['C12', 'C14'], 'C09': ['C15', 'C17'], 'C10': ['C07', 'C02'], 'C11': ['C03', 'C02'], 'C12': ['C08', 'C01'],
        'C13': ['C14', 'C17'], 'C14': ['C02', 'C13'], 'C15': ['C09'], 'C16': ['C01'], 'C17': ['C09', 'C13']}


def sh(cmd, cwd=None, timeout=3600, env=None):
    p = subprocess.run(cmd, shell=True, cwd=cwd, capture_output=True, text=True, timeout=timeout, env=env)
    return p.returncode, p.stdout + p.stderr


def one(tag, pid, m):
    src = os.path.join(MUT, '%s_%s' % (tag, pid), m)
    patch = os.path.join(src, 'patch.diff')
    wt = '/tmp/sw/cf_%s_%s_%s' % (tag, pid, m)
    sh('git -C /repo worktree remove --force %s' % wt)
    sh('git -C /repo worktree add --detach %s HEAD' % wt)
    meta = {'property': pid, 'mutant': '%s-%s' % (tag, m), 'repo_head': sh('git -C /repo rev-parse --short HEAD')[1].strip()}
    try:
        rc, out = sh('git apply %s' % patch, cwd=wt)
        if rc != 0:
            return '%s %s: PATCH DOES NOT APPLY' % (pid, m)
        rc, out = sh('/venv/bin/python -m pytest -q -p no:cacheprovider --timeout=900 --continue-on-collection-errors 2>&1 | tail -1', cwd=wt)
        mm = re.search(r'(\d+) passed', out)
        meta['suite_passed_with_change'] = int(mm.group(1)) if mm else None
        shutil.copy(os.path.join(src, 'demo.py'), os.path.join(wt, '_demo_seeded.py'))
        rc1, _ = sh('/venv/bin/python _demo_seeded.py', cwd=wt, timeout=900)
        meta['demo_exit_with_change'] = rc1
        sh('git stash -q' if False else 'git diff > /tmp/sw/cf_%s_%s_%s.diff && git checkout -- algopy' % (tag, pid, m), cwd=wt)
        rc2, _ = sh('/venv/bin/python _demo_seeded.py', cwd=wt, timeout=900)
        meta['demo_exit_without_change'] = rc2
        ok = meta.get('suite_passed_with_change') == 389 and rc1 != 0 and rc2 == 0
        meta['confirmed'] = ok
        am = os.path.join(src, 'meta.json')
        if os.path.exists(am):
            try:
                a = json.load(open(am))
                meta['summary'] = a.get('summary', '')
                meta['needs_to_manifest'] = a.get('needs', '')
            except Exception:
                pass
        detected = {}
        if ok:
            sh('git apply %s' % patch, cwd=wt)
            os.remove(os.path.join(wt, '_demo_seeded.py'))
            env = dict(os.environ, ALGOPY_REPO=wt)
            for c in [pid] + ALTS.get(pid, []):
                rc, out = sh('./check %s --tier quick --no-evidence' % c, cwd=VERIF, env=env)
                v = [l for l in out.splitlines() if l.startswith('VIOLATION')]
                detected[c] = {'exit': rc, 'violation_lines': len(v)}
        meta['checks_run'] = detected
        meta['caught_by'] = [c for c, d in detected.items() if d['exit'] == 1 and d['violation_lines'] > 0]
        meta['what_i_ran'] = ('scratch worktree of /repo HEAD: git apply patch; pinned pytest command (389 passed required); demo.py must exit non-zero; '
                              'git checkout; demo.py must exit 0; patch re-applied; ./check <ID> --tier quick with ALGOPY_REPO=<worktree>')
        if ok:
            dst = os.path.join(VERIF, 'seeded', '%s-%s-%s' % (pid, tag, m))
            os.makedirs(dst, exist_ok=True)
            shutil.copy(patch, os.path.join(dst, 'patch.diff'))
            shutil.copy(os.path.join(src, 'demo.py'), os.path.join(dst, 'demo.py'))
            json.dump(meta, open(os.path.join(dst, 'meta.json'), 'w'), indent=1)
        return '%s %s: confirmed=%s suite=%s demo_with=%s demo_without=%s caught_by=%s %s' % (
            pid, m, ok, meta.get('suite_passed_with_change'), rc1, rc2, meta['caught_by'], {c: d['exit'] for c, d in detected.items()})
    finally:
        sh('git -C /repo worktree remove --force %s' % wt)


def main():
    tag = sys.argv[sys.argv.index('--tag') + 1]
    jobs = int(sys.argv[sys.argv.index('--jobs') + 1]) if '--jobs' in sys.argv else 3
    ids = [a for a in sys.argv[1:] if re.match(r'^C\d\d$', a)] or sorted(ALTS)
    work = []
    for pid in ids:
        d = os.path.join(MUT, '%s_%s' % (tag, pid))
        if os.path.isdir(d):
            for m in sorted(os.listdir(d)):
                if os.path.exists(os.path.join(d, m, 'patch.diff')):
                    work.append((tag, pid, m))
    os.makedirs('/tmp/sw', exist_ok=True)
    with ThreadPoolExecutor(max_workers=jobs) as ex:
        for line in ex.map(lambda w: one(*w), work):
            print(line, flush=True)
    return 0


if __name__ == '__main__':
    sys.exit(main())
