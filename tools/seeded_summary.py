#!/usr/bin/env python3
import json, glob, os
rows = []
for d in sorted(glob.glob('/verif/seeded/*/meta.json')):
    m = json.load(open(d))
    note = m.get('needs_to_manifest', '').strip().splitlines()
    first = ' '.join(note[:2])[:160]
    caught = ', '.join(m['caught_by'])
    if m.get('status') == 'neutralised':
        caught = 'n/a: neutralised by a later fix (%s)' % m.get('status_note', '')[:120]
    rows.append('| %s-%s | %s | %s | %s |' % (m['property'], m['mutant'], caught or '**not caught** (%s)' % ', '.join('%s: exit %s' % (k, v['exit']) for k, v in m['checks_run'].items()),
                                              'yes' if m.get('ported_to_current_head') else 'no', first.replace('|', '/')))
open('/verif/seeded/SUMMARY.md', 'w').write('''# Seeded changes and the checks that catch them

Each change was produced by a sub-agent that saw only the property text and a scratch worktree,
then confirmed here (`tools/confirm_seeded.py`): patch applies to the current /repo HEAD, the
pinned suite still reports 389 passed, `demo.py` fails with the change and passes without it.
`caught by` = checks whose quick tier exits 1 with a replay-confirmed VIOLATION line when the
patch is applied to /repo.

| change | caught by | ported | what it needs to manifest (from the sub-agent's note) |
|---|---|---|---|
''' + '\n'.join(rows) + '\n')
print(len(rows), 'rows;', sum('not caught' in r for r in rows), 'not caught')
